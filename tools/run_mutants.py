"""Sensitivity self-test.  Each mutants/<name>.py describes a realistic change to
httpcore (EDITS on the async sources; the sync twins are regenerated with
scripts/unasync.py unless SYNC_ONLY) and the properties it should break.  The change
is applied to a scratch worktree of /repo under /tmp (removed afterwards), the
resulting diff is stored as mutants/<name>.patch, optionally the repository's test
suite is run, and the quick check of each targeted property is run with VERIF_REPO
pointing at the scratch copy: a VIOLATION is required.

usage: tools/run_mutants.py [--tests] [--others] [name-substring ...]"""
import glob
import os
import runpy
import subprocess
import sys
import time

VERIF = os.path.dirname(os.path.dirname(os.path.abspath(__file__)))
args = [a for a in sys.argv[1:] if not a.startswith("--")]
run_tests = "--tests" in sys.argv
rows = []


def sh(*cmd, **kw):
    return subprocess.run(cmd, capture_output=True, text=True, **kw)


for path in sorted(glob.glob(os.path.join(VERIF, "mutants", "*.py"))):
    name = os.path.basename(path)[:-3]
    if args and not any(w in name for w in args):
        continue
    m = runpy.run_path(path)
    wt = f"/tmp/mut_{name}"
    sh("git", "-C", "/repo", "worktree", "remove", "--force", wt)
    r = sh("git", "-C", "/repo", "worktree", "add", "--detach", wt, "HEAD")
    if r.returncode:
        print(r.stderr)
        sys.exit(2)
    try:
        bad = None
        for fn, old, new in m["EDITS"]:
            p = os.path.join(wt, fn)
            s = open(p).read()
            if s.count(old) != 1:
                bad = f"edit target occurs {s.count(old)} times in {fn}"
                break
            open(p, "w").write(s.replace(old, new))
        if bad:
            rows.append((name, "-", "EDIT DOES NOT APPLY", bad))
            continue
        if not m.get("SYNC_ONLY"):
            r = sh("/venv/bin/python", "scripts/unasync.py", cwd=wt)
        diff = sh("git", "-C", wt, "diff").stdout
        with open(os.path.join(VERIF, "mutants", name + ".patch"), "w") as f:
            f.write("# %s\n# properties: %s\n" % (m.get("DOC", "").replace("\n", " "),
                                                 " ".join(m["PROPS"])))
            f.write(diff)
        tests = ""
        if run_tests:
            r = sh("/venv/bin/python", "-m", "pytest", "-q", "-p", "no:cacheprovider", "-x",
                   "tests", cwd=wt, env=dict(os.environ, PYTHONPATH=wt))
            tests = "tests:" + ("pass" if r.returncode == 0 else "FAIL") + " "
        for prop in m["PROPS"]:
            env = dict(os.environ, VERIF_REPO=wt, VERIF_EVIDENCE_DIR="/tmp/mut_evidence",
                       VERIF_REPLAY_DIR="/tmp/mut_replays", VERIF_BUDGET_S="60")
            t = time.time()
            r = sh(os.path.join(VERIF, "check"), prop, "--tier", "quick", env=env)
            viol = [l for l in r.stdout.splitlines() if l.startswith("VIOLATION")]
            sigs = [l.strip() for l in r.stdout.splitlines() if "signature=" in l]
            status = "CAUGHT" if r.returncode == 1 and viol else (
                "MISSED" if r.returncode == 0 else f"HARNESS-ERROR({r.returncode})")
            rows.append((name, prop, status, tests + "%.0fs %s" % (
                time.time() - t, "; ".join(sigs[:3])[:300])))
            if status.startswith("HARNESS"):
                print(r.stderr[-2000:])
    finally:
        sh("git", "-C", "/repo", "worktree", "remove", "--force", wt)
for row in rows:
    print(" | ".join(row))
