"""Regenerate /verif/MANIFEST.json from the property registry."""
import json
import os
import sys

sys.path.insert(0, os.path.dirname(os.path.dirname(os.path.abspath(__file__))))
from sim import props  # noqa: E402

NOT_APPLICABLE = [
    {"property_id": "C19",
     "reason": "every clause is a pure function of its input in httpcore/_models.py (URL "
               "parsing, origin defaults, header defaults): no schedule, clock, fault, "
               "interleaving or I/O for a simulator to control; generating URLs would be "
               "input generation in simulator vocabulary (DESIGN.md §11)"},
]

checks = []
for pid in props.all_props():
    m = props.META[pid]
    checks.append({
        "property_id": pid,
        "quick_cmd": f"./check {pid} --tier quick",
        "thorough_cmd": f"./check {pid} --tier thorough",
        "evidence_file": f"/verif/evidence/{pid}.json",
        "replay_cmd_template": f"./check {pid} --replay {{path}}",
        "engine": "sim",
        "level_claimed": {
            "category": m["level"],
            "text": m.get("level_text") or m["rule"],
            "design_ref": m.get("design_ref", f"DESIGN.md §6 {pid}"),
        },
        "level_note": m.get("level_note") or "; ".join(m.get("assumptions", [])) or "see DESIGN.md §10",
        "technique": m.get("technique", "deterministic simulation with fault injection: seeded "
                                        "search over schedules and fault sequences, invariants "
                                        "and history oracles"),
    })
claimed = {c["property_id"] for c in checks}
all_ids = [json.loads(l)["id"] for l in open(os.path.join(os.path.dirname(__file__), "..", "properties.jsonl"))]
na = list(NOT_APPLICABLE)
for pid in all_ids:
    if pid not in claimed and pid not in {n["property_id"] for n in na}:
        na.append({"property_id": pid, "reason": "check not built yet in this revision of /verif "
                                                  "(in progress; see DESIGN.md §12)"})
manifest = {
    "version": 1,
    "setup_cmd": "./check selftest",
    "hooks": {
        "guard": "HTTPCORE_VERIF",
        "enable": "no source hooks: every seam is a public argument (network_backend=) or a "
                  "module attribute patched from outside (time, threading); nothing in /repo "
                  "reads the guard",
        "baseline_off_cmd": "cd /repo && /venv/bin/python -m pytest -ra -q -p no:cacheprovider "
                            "--timeout=900 --continue-on-collection-errors",
        "source_commits": [],
        "add_only": True,
    },
    "engines": [{
        "name": "sim",
        "path": "/verif/sim",
        "serves_properties": sorted(claimed),
        "kind_free_text": "deterministic simulator: virtual-time asyncio event loop, trio under a "
                          "virtual clock and baton-passing thread scheduler (operation / line / PCT / "
                          "systematic-delay policies) over a simulated network (Wire model, HTTP/1.1, "
                          "HTTP/2, proxy and SOCKS peers; seam L1 behind network_backend=, seam L2 "
                          "under the real anyio / trio / socket backends), seeded and enumerated fault "
                          "and cancellation injection, dead- and livelock detection, ledger oracles, "
                          "scenario minimiser, replay",
    }],
    "checks": checks,
    "not_applicable": na,
    "notes": "Known findings and fixed defects: /verif/KNOWN_FINDINGS.txt; design: /verif/DESIGN.md",
}
with open(os.path.join(os.path.dirname(__file__), "..", "MANIFEST.json"), "w") as f:
    json.dump(manifest, f, indent=1)
print("claimed:", sorted(claimed), "not applicable:", [n["property_id"] for n in na])
