#!/bin/sh
# Evaluate a seeded change made by a sub-agent in a scratch worktree /tmp/seed_<name>:
# confirm (tests pass, demo fails with / passes without the change), run the named checks
# against the worktree, and store the change under /verif/seeded/<name>/.
# usage: tools/eval_seed.sh <name> <property> [more checks to run ...]
cd "$(dirname "$0")/.." || exit 2
NAME=$1; PROP=$2; shift 1
D=${SEED_PREFIX:-/tmp/seed_}$NAME
OUT=seeded/${OUTNAME:-$NAME}
mkdir -p "$OUT"
git -C "$D" diff > "$OUT/patch.diff"
cp "$D/demo.py" "$OUT/demo.py" 2>/dev/null
T=$(cd "$D" && PYTHONPATH=$D /venv/bin/python -m pytest -q -p no:cacheprovider tests 2>&1 | tail -1)
(cd "$D" && PYTHONPATH=$D timeout 120 /venv/bin/python demo.py > /tmp/demo_with.txt 2>&1); RW=$?
git -C "$D" stash -q
(cd "$D" && PYTHONPATH=$D timeout 120 /venv/bin/python demo.py > /tmp/demo_without.txt 2>&1); RWO=$?
git -C "$D" stash pop -q
echo "tests: $T | demo with change: exit $RW | without: exit $RWO"
RES=""
for P in "$@"; do
  VERIF_REPO=$D VERIF_EVIDENCE_DIR=/tmp/seed_ev VERIF_REPLAY_DIR=/tmp/seed_replays/$NAME VERIF_BUDGET_S=${BUDGET:-90} \
    ./check "$P" --tier "${TIER:-quick}" > /tmp/seed_check_$NAME.$P.log 2>&1
  RC=$?
  SIGS=$(grep "signature=" /tmp/seed_check_$NAME.$P.log | sed 's/.*signature=//' | sort -u | head -4 | tr '\n' ';')
  echo "check $P: exit $RC $SIGS"
  RES="$RES $P:rc=$RC:$SIGS"
done
cat > "$OUT/meta.json" <<EOM
{"name": "$NAME", "property": "$PROP", "tests": "$T", "demo_with_change_exit": $RW, "demo_without_change_exit": $RWO, "checks_run": "$RES"}
EOM
