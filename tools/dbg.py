"""Developer helper: run units of a family in-process and print slow / failing ones."""
import sys, time, collections
sys.path.insert(0, '/verif')
from sim import props
from sim.core import sub_seed
prop, famname, lo, hi = sys.argv[1], sys.argv[2], int(sys.argv[3]), int(sys.argv[4])
seed = int(sys.argv[5]) if len(sys.argv) > 5 else 0
fam = props.family_by_name(prop, famname)
times = []
sigs = collections.Counter()
for i in range(lo, hi):
    s = sub_seed(seed, prop, fam.name, i)
    t = time.time()
    scn = fam.generate(s, i, "quick")
    res = fam.run_scenario(scn)
    dt = time.time() - t
    times.append((dt, i))
    for p, sig, d in res.violations:
        sigs[(p, sig)] += 1
    if res.error or dt > 1.0:
        print(i, "err", res.error, "dt %.2f" % dt, "steps", res.info.get("steps"), scn["net"]["seg"], scn["net"]["latency"], scn.get("cancel"), res.blocked)
times.sort(reverse=True)
print("slowest", times[:8], "total %.1f" % sum(t for t, _ in times))
for k, v in sigs.most_common(): print(v, k)
