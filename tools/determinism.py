"""Determinism self-test: every family, a few units, executed in fresh interpreters under
several PYTHONHASHSEED values (and twice under the same one); the sets of event-log
digests must be identical.  usage: tools/determinism.py [units-per-family] [prop ...]"""
import json
import os
import subprocess
import sys

VERIF = os.path.dirname(os.path.dirname(os.path.abspath(__file__)))
n = int(sys.argv[1]) if len(sys.argv) > 1 else 6
props_wanted = sys.argv[2:]
CODE = r'''
import sys, hashlib, json
sys.path.insert(0, %r)
from sim import props
from sim.core import sub_seed
out = {}
for prop in props.all_props():
    if %r and prop not in %r:
        continue
    for fam in props.families(prop):
        fam.check_seed = 7
        h = hashlib.sha256()
        evals = 0
        units = min(%d, fam.units("quick"))
        step = max(1, fam.units("quick") // units)
        for i in range(0, units * step, step):
            u = fam.run_unit(sub_seed(7, prop, fam.name, i), i, "quick")
            evals += u.evals
            for d in sorted(u.digests):
                h.update(d.encode())
            for v in u.viols:
                h.update(v["sig"].encode())
        out[prop + "/" + fam.name] = (evals, h.hexdigest()[:16])
print("RESULT " + json.dumps(out, sort_keys=True))
''' % (VERIF, bool(props_wanted), props_wanted, n)
results = []
for hs in ("0", "0", "1", "4242"):
    env = dict(os.environ, PYTHONHASHSEED=hs, PYTHONDONTWRITEBYTECODE="1")
    r = subprocess.run(["/venv/bin/python", "-c", CODE], capture_output=True, text=True, env=env)
    line = [l for l in r.stdout.splitlines() if l.startswith("RESULT ")]
    if not line:
        print("run failed under PYTHONHASHSEED=%s:\n%s" % (hs, r.stderr[-2000:]))
        sys.exit(2)
    results.append((hs, json.loads(line[0][7:])))
base = results[0][1]
bad = 0
for hs, res in results[1:]:
    for k in sorted(base):
        if res.get(k) != base[k]:
            bad += 1
            print("DIVERGENCE %s: PYTHONHASHSEED=0 %s vs %s %s" % (k, base[k], hs, res.get(k)))
tot = sum(v[0] for v in base.values())
print("determinism: %d families, %d executions per interpreter, 4 interpreters "
      "(PYTHONHASHSEED 0,0,1,4242): %s" % (len(base), tot, "identical" if not bad else "%d DIVERGENCES" % bad))
sys.exit(1 if bad else 0)
