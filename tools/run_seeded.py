"""Re-run every kept sub-agent change (seeded/<id>/patch.diff) against the check of its
property on the current /repo HEAD: scratch worktree under /tmp, apply, quick check with
VERIF_REPO, remove the worktree.  usage: tools/run_seeded.py [name-substring ...]"""
import json, os, subprocess, sys, time

VERIF = os.path.dirname(os.path.dirname(os.path.abspath(__file__)))
args = sys.argv[1:]
rows = []


def sh(*cmd, **kw):
    return subprocess.run(cmd, capture_output=True, text=True, **kw)


for name in sorted(os.listdir(os.path.join(VERIF, "seeded"))):
    if args and not any(a in name for a in args):
        continue
    d = os.path.join(VERIF, "seeded", name)
    meta = json.load(open(os.path.join(d, "meta.json")))
    if meta.get("obsolete"):
        print(name, "| - | OBSOLETE (no longer breaks the property after a later fix)", flush=True)
        continue
    prop = meta.get("property") or name[:3]
    wt = f"/tmp/sd_{name}"
    sh("git", "-C", "/repo", "worktree", "remove", "--force", wt)
    r = sh("git", "-C", "/repo", "worktree", "add", "--detach", wt, "HEAD")
    try:
        r = sh("git", "-C", wt, "apply", os.path.join(d, "patch.diff"))
        if r.returncode:
            rows.append((name, prop, "PATCH DOES NOT APPLY", r.stderr.strip()[:100]))
            continue
        t = time.time()
        env = dict(os.environ, VERIF_REPO=wt, VERIF_EVIDENCE_DIR="/tmp/sd_ev",
                   VERIF_REPLAY_DIR=f"/tmp/sd_replays/{name}")
        r = sh(os.path.join(VERIF, "check"), prop, env=env)
        sigs = sorted({l.split("signature=")[1].strip() for l in r.stdout.splitlines()
                       if "signature=" in l})
        rows.append((name, prop, "CAUGHT" if r.returncode == 1 and sigs else
                     "MISSED" if r.returncode == 0 else f"rc={r.returncode}",
                     "%ds %s" % (time.time() - t, "; ".join(sigs)[:160])))
    finally:
        sh("git", "-C", "/repo", "worktree", "remove", "--force", wt)
        sh("rm", "-rf", f"/tmp/sd_replays/{name}")
    print(" | ".join(rows[-1]), flush=True)
print("\nSUMMARY: %d changes, %d caught, %d missed" % (
    len(rows), sum(1 for r in rows if r[2] == "CAUGHT"), sum(1 for r in rows if r[2] == "MISSED")))
