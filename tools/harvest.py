"""Find, minimise and store a replay for a given signature.
usage: tools/harvest.py <prop> <family> <signature> <out.json> [first-index] [last-index] [seed]"""
import sys, os
sys.path.insert(0, os.path.dirname(os.path.dirname(os.path.abspath(__file__))))
from sim import props
from sim.core import sub_seed
from sim.minimise import minimise
from sim.runner import write_replay

prop, famname, sig, out = sys.argv[1:5]
lo = int(sys.argv[5]) if len(sys.argv) > 5 else 0
hi = int(sys.argv[6]) if len(sys.argv) > 6 else 3000
seed = int(sys.argv[7]) if len(sys.argv) > 7 else 0
fam = props.family_by_name(prop, famname)
fam.check_seed = seed
for i in range(lo, hi):
    u = fam.run_unit(sub_seed(seed, prop, fam.name, i), i, "quick")
    for v in u.viols:
        if v["sig"] == sig:
            scn, digest = minimise(fam, v["scenario"], sig, budget=300)
            p = write_replay(prop, fam.name, sig, scn, digest, seed, directory="/tmp/harvest")
            os.replace(p, out)
            print("harvested at unit", i, "->", out)
            sys.exit(0)
print("not found")
sys.exit(1)
