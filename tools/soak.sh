#!/bin/sh
# Soak: run every registered check (quick tier unless TIER is set) over a range of seeds
# and report anything that is not a clean exit.  Evidence and replays go to scratch
# directories so that the committed ones are not touched.
# usage: tools/soak.sh <first-seed> <last-seed> [prop ...]
cd "$(dirname "$0")/.." || exit 2
A=$1; B=$2; shift 2
PROPS="$*"
[ -z "$PROPS" ] && PROPS=$(/venv/bin/python -c "import json;print(' '.join(c['property_id'] for c in json.load(open('MANIFEST.json'))['checks']))")
OUT=${SOAK_OUT:-/tmp/soak}
mkdir -p "$OUT/ev" "$OUT/replays" "$OUT/logs"
for s in $(seq "$A" "$B"); do
  for p in $PROPS; do
    VERIF_SEED=$s VERIF_EVIDENCE_DIR=$OUT/ev VERIF_REPLAY_DIR=$OUT/replays \
      ./check "$p" --tier "${TIER:-quick}" > "$OUT/logs/$p.$s.log" 2>&1
    rc=$?
    line=$(grep "tier=" "$OUT/logs/$p.$s.log" | tail -1)
    echo "seed=$s $p rc=$rc $line"
    if [ $rc -ne 0 ]; then grep "signature=\|HARNESS" "$OUT/logs/$p.$s.log" | head -5; fi
  done
done
