"""Sync executor: real OS threads under a baton-passing scheduler.  Exactly one
simulated thread runs at any time; the seeded `sched` stream decides who.  Threads
reach the scheduler at every simulated Lock/Event/Semaphore operation, every
simulated network operation and (policy "lines") every source line of
httpcore/_sync/*.py and httpcore/_synchronization.py via sys.settrace."""
from __future__ import annotations

import heapq
import sys
import threading as _th

from .core import Deadlock, HarnessError, SimAbort, StepCap, no_progress

_SYNC_MARK = "/httpcore/_sync/"
_SYNCHRO = "httpcore/_synchronization.py"


class SimThread:
    def __init__(self, sched, fn, name):
        self.s = sched
        self.fn = fn
        self.name = name
        self.idx = len(sched.threads)
        self.state = "R"          # R runnable, B blocked, D done
        self.go = _th.Semaphore(0)
        self.wait_token = None
        self.timed_out = False
        self.exc = None
        self.result = None
        self.blocked_on = None
        self.steps = 0
        self.lsteps = 0           # traced lines executed (policy "delay")
        self.nlocks = 0           # simulated locks held
        self.th = _th.Thread(target=self._main, name=name, daemon=True)

    def _main(self):
        self.go.acquire()
        s = self.s
        try:
            if s.aborting:
                raise SimAbort()
            sys.settrace(self._trace)
            self.result = self.fn()
        except SimAbort:
            pass
        except BaseException as e:  # noqa: BLE001
            self.exc = e
        finally:
            sys.settrace(None)
            self.state = "D"
            s.thread_done(self)

    # -- tracing ---------------------------------------------------------------
    def _trace(self, frame, event, arg):
        fn = frame.f_code.co_filename
        if _SYNC_MARK in fn or fn.endswith(_SYNCHRO):
            if self.s.opcodes:
                frame.f_trace_opcodes = True
            return self._local
        return None

    def _local(self, frame, event, arg):
        s = self.s
        if event == "line":
            cov = s.linecov
            if cov is not None:
                cov.add((frame.f_code.co_filename, frame.f_lineno))
            if s.opcodes:
                return self._local      # pre-emption points are the opcode events
            if s.line_p and not s.in_hook and s.cur is self:
                s.nlines += 1
                s.yield_point(frame)
        elif event == "opcode" and s.opcodes:
            if s.line_p and not s.in_hook and s.cur is self:
                s.nlines += 1
                s.yield_point(frame)
        return self._local


class Sched:
    def __init__(self, world, policy=None, step_cap=400000):
        policy = policy or {}
        self.world = world
        self.rng = world.rng("sched")
        self.threads = []
        self.cur = None
        self.timers = []
        self.seq = 0
        self.main_go = _th.Semaphore(0)
        self.aborting = False
        self.deadlock = None
        self.stepcap_hit = False
        self.nsw = 0
        self.nlines = 0
        self.nsteps = 0
        self.step_cap = step_cap
        self.mode = policy.get("mode", "ops")
        self.line_p = policy.get("p", 0.05) if self.mode == "lines" else 0.0
        self.op_p = policy.get("op_p", 0.5)
        # PCT-style: strict random priorities, rare demotions at random yield points, so
        # that one thread runs a long stretch while another is parked at one spot
        self.pct = self.mode == "pct"
        if self.pct:
            self.line_p = 1.0     # every traced line is a (potential) priority change point
            self.q_line = policy.get("q", 0.004)
            self.q_op = policy.get("q_op", 0.05)
        # "delay": systematic single-delay exploration.  The schedule is the seeded "ops"
        # schedule, except that thread `thread` is parked when it reaches its `step`-th
        # traced source line and stays parked until nobody else can make progress any
        # more (all others finished or blocked with no timer pending): the longest
        # delay a pre-empted thread can suffer at that point.
        self.delay = self.mode == "delay"
        # bytecode granularity: every instruction of httpcore/_sync is a pre-emption point
        # (a thread can be parked between the two reads of one attribute in one line)
        self.opcodes = bool(policy.get("opcodes"))
        if self.delay:
            self.line_p = 1.0
            self.d_thread = policy.get("thread")
            self.d_step = policy.get("step", -1)
            self.record = [] if policy.get("record") else None
        self.low = 0.0
        self.in_hook = False
        self.on_quiescent = None
        self.linecov = None
        self.finished = False

    # -- executor interface (wires) ------------------------------------------------
    def wake(self, t):
        if t.state == "B":
            t.state = "R"
            t.wait_token = None

    def ctx_name(self):
        c = self.cur
        return c.name if c is not None else "main"

    def ctx_site(self):
        from .aloop import stack_site

        return stack_site(sys._getframe(1))

    # -- scheduling -----------------------------------------------------------------
    def _hook_change(self):
        cb = self.world.on_change
        if cb is not None and not self.in_hook:
            self.in_hook = True
            try:
                cb()
            finally:
                self.in_hook = False

    def _release_due(self):
        """Every thread whose timed wait has expired at the current instant is runnable
        (not only the first one popped when nobody else could run)."""
        now = self.world.now
        while self.timers and self.timers[0][0] <= now:
            when, _, t, token = heapq.heappop(self.timers)
            if t.state == "B" and t.wait_token == token:
                t.state = "R"
                t.timed_out = True
                t.wait_token = None

    def _pick(self):
        w = self.world
        while True:
            self._release_due()
            run = [t for t in self.threads if t.state == "R"]
            if run:
                if self.pct:
                    return max(run, key=lambda t: t.prio)
                return run[0] if len(run) == 1 else self.rng.choice(run)
            q = self.on_quiescent
            due_now = any(t.state == "B" and t.wait_token == tok and when <= w.now
                          for when, _, t, tok in self.timers)
            parked = [t for t in self.threads if t.state == "P"]
            # with a parked thread the instant is not quiescent: that thread could run
            if q is not None and not self.in_hook and not due_now and not parked:
                self.in_hook = True
                try:
                    q()
                finally:
                    self.in_hook = False
            while self.timers:
                when, _, t, token = heapq.heappop(self.timers)
                if t.state == "B" and t.wait_token == token:
                    if when > w.now:
                        w.now = when
                    t.state = "R"
                    t.timed_out = True
                    t.wait_token = None
                    break
            else:
                if parked:
                    for t in parked:
                        t.state = "R"
                        w.log("unpark", t.name)
                    continue
                return None

    def _handoff(self, me):
        """Give the baton to the next thread; returns when `me` is scheduled again."""
        self.nsteps += 1
        if self.nsteps == self.step_cap // 2:
            self.half_mark = (self.world.now, self.world.opcount)
        if self.nsteps > self.step_cap and not self.aborting:
            self.stepcap_hit = True
            if no_progress(getattr(self, "half_mark", None), self.world):
                from .aloop import stack_site

                self.spinning = [(t.name, t.blocked_on if t.state == "B" else "spin@%s" % (
                    stack_site(sys._getframe(1)) if t is me else "runnable"))
                    for t in self.threads if t.state != "D"]
            self._abort_from(me)
            return
        self._hook_change()
        nxt = self._pick()
        if nxt is None:
            if all(t.state == "D" for t in self.threads):
                self.finished = True
                self.main_go.release()
                return
            # deadlock
            self.deadlock = [(t.name, t.blocked_on) for t in self.threads if t.state == "B"]
            self._abort_from(me)
            return
        if nxt is me:
            return
        self.nsw += 1
        self.cur = nxt
        nxt.go.release()
        if me is not None and me.state != "D":
            me.go.acquire()
            if self.aborting:
                raise SimAbort()

    def _abort_from(self, me):
        """Start teardown: hand control back to the host thread."""
        self.aborting = True
        self.main_go.release()
        if me is not None and me.state != "D":
            me.go.acquire()
            raise SimAbort()

    def yield_point(self, frame=None):
        if self.aborting:
            raise SimAbort()
        me = self.cur
        if self.timers and self.timers[0][0] <= self.world.now:
            self._release_due()
        if self.delay and frame is not None:
            me.lsteps += 1
            if self.record is not None:
                self.record.append((me.name, me.lsteps, frame.f_code.co_filename.rsplit("/", 1)[-1],
                                    frame.f_lineno, me.nlocks, frame.f_code.co_name,
                                    frame.f_lasti))
            if me.lsteps == self.d_step and me.name == self.d_thread and len(self.threads) > 1:
                me.state = "P"
                self.world.stats["sched:parked"] += 1
                self.world.log("park", me.name, frame.f_code.co_filename.rsplit("/", 1)[-1],
                               frame.f_code.co_name)
                me.steps += 1
                self._handoff(me)
            return
        if self.pct:
            if len(self.threads) < 2:
                return
            q = self.q_line if frame is not None else self.q_op
            if self.rng.random() < q:
                self.low -= 1.0
                me.prio = self.low       # demote: everybody else now runs first
            best = max((t for t in self.threads if t.state == "R"), key=lambda t: t.prio)
            if best is not me:
                me.steps += 1
                self._handoff(me)
            return
        p = self.line_p if frame is not None else self.op_p
        if len(self.threads) > 1 and self.rng.random() < p:
            me.steps += 1
            self._handoff(me)

    def block(self, timeout=None, on=None, until=None):
        """Block the current thread.  Returns True if woken, False on timeout.  `until`
        is an absolute virtual instant (no rounding through a relative timeout)."""
        if self.aborting:
            raise SimAbort()
        me = self.cur
        me.state = "B"
        me.timed_out = False
        me.blocked_on = on
        self.seq += 1
        me.wait_token = self.seq
        if until is None and timeout is not None:
            until = self.world.now + max(0.0, timeout)
        if until is not None:
            heapq.heappush(self.timers, (max(until, self.world.now), self.seq, me, self.seq))
        me.steps += 1
        self._handoff(me)
        me.blocked_on = None
        return not me.timed_out

    def wait(self, wire, until):
        """Driver primitive for wire-operation generators."""
        me = self.cur
        if wire is not None:
            wire.waiters.append(me)
        try:
            self.block(until=until,
                       on=("wire", wire.id if wire is not None else None, self.ctx_site()))
        finally:
            if wire is not None:
                try:
                    wire.waiters.remove(me)
                except ValueError:
                    pass

    def sleep(self, d):
        t = self.world.now + d
        self.block(until=t, on=("sleep",))
        while self.world.now < t:
            self.block(until=t, on=("sleep",))

    def spawn(self, fn, name):
        t = SimThread(self, fn, name)
        t.prio = self.rng.random()
        self.threads.append(t)
        return t

    def thread_done(self, t):
        for t2 in self.threads:
            if getattr(t2, "joining", False) and t2.state == "B":
                t2.joining = False
                self.wake(t2)
        if self.aborting:
            # teardown: the host drives the remaining threads one by one
            self.main_go.release()
            return
        try:
            self._handoff(t)
        except SimAbort:
            pass

    def join_all(self, names):
        """Called from a sim thread: block until the named threads are done."""
        while True:
            pend = [t for t in self.threads if t.name in names and t.state != "D"]
            if not pend:
                return
            self.cur.joining = True
            self.block(None, on=("join",))

    # -- host side --------------------------------------------------------------------
    def run(self):
        for t in self.threads:
            t.th.start()
        nxt = self._pick()
        self.cur = nxt
        nxt.go.release()
        self.main_go.acquire()
        err = None
        if self.deadlock is not None:
            err = Deadlock(self.deadlock)
        elif self.stepcap_hit:
            err = StepCap()
            err.spinning = getattr(self, "spinning", None)
        # teardown
        self.world.log("TEARDOWN", len(getattr(self.world, "trace_events", ())))
        self.aborting = True
        self.world.on_change = None
        self.on_quiescent = None
        for t in self.threads:
            if t.state != "D":
                self.cur = t
                t.go.release()
                self.main_go.acquire()
        for t in self.threads:
            t.th.join(5.0)
            if t.th.is_alive():
                raise HarnessError(f"sim thread {t.name} did not terminate")
        return err


# ---------------------------------------------------------------------------
# the shim that replaces `threading` inside httpcore._synchronization

_SCHED = None


def set_sched(s):
    global _SCHED
    _SCHED = s


class SLock:
    def __init__(self):
        self.owner = None
        self.waiters = []

    def acquire(self, blocking=True, timeout=-1):
        s = _SCHED
        s.yield_point()
        me = s.cur
        while self.owner is not None:
            self.waiters.append(me)
            s.world.probes["lock_contended"] += 1
            s.block(None, on=("lock", s.ctx_site()))
        self.owner = me
        me.nlocks += 1
        return True

    def release(self):
        s = _SCHED
        if self.owner is not None:
            self.owner.nlocks -= 1
        self.owner = None
        if self.waiters:
            # real locks are unfair: wake a random waiter
            w = self.waiters.pop(s.rng.randrange(len(self.waiters)))
            s.wake(w)
        if not s.aborting:
            s.yield_point()

    def locked(self):
        return self.owner is not None

    __enter__ = acquire

    def __exit__(self, *a):
        self.release()


class SEvent:
    def __init__(self):
        self.flag = False
        self.waiters = []

    def is_set(self):
        return self.flag

    def set(self):
        s = _SCHED
        self.flag = True
        for w in self.waiters:
            s.wake(w)
        self.waiters = []

    def clear(self):
        self.flag = False

    def wait(self, timeout=None):
        s = _SCHED
        s.yield_point()
        if self.flag:
            return True
        me = s.cur
        self.waiters.append(me)
        s.block(timeout, on=("event", s.ctx_site()))
        if me in self.waiters:
            self.waiters.remove(me)
        return self.flag


class SSemaphore:
    def __init__(self, value=1):
        self.v = value
        self.waiters = []

    def acquire(self, blocking=True, timeout=None):
        s = _SCHED
        s.yield_point()
        me = s.cur
        while self.v == 0:
            self.waiters.append(me)
            s.block(None, on=("semaphore", s.ctx_site()))
        self.v -= 1
        return True

    def release(self, n=1):
        s = _SCHED
        self.v += n
        for _ in range(n):
            if self.waiters:
                s.wake(self.waiters.pop(s.rng.randrange(len(self.waiters))))


class ThreadingShim:
    Lock = SLock
    Event = SEvent
    Semaphore = SSemaphore
