"""System under test: import httpcore from $VERIF_REPO (default /repo) and install the
seams.  No hook in /repo is needed: every seam is a module attribute or a public
constructor argument.  A missing seam is a harness error, never a pass."""
from __future__ import annotations

import os
import sys

from .core import HarnessError

REPO = os.environ.get("VERIF_REPO", "/repo")
if sys.path[0:1] != [REPO]:
    sys.path.insert(0, REPO)

import httpcore  # noqa: E402

_hc_file = os.path.realpath(httpcore.__file__)
if not _hc_file.startswith(os.path.realpath(REPO) + os.sep):
    raise HarnessError(f"httpcore imported from {_hc_file}, expected under {REPO}")

import httpcore._async.http11 as a_http11  # noqa: E402
import httpcore._async.http2 as a_http2  # noqa: E402
import httpcore._sync.http11 as s_http11  # noqa: E402
import httpcore._sync.http2 as s_http2  # noqa: E402
import httpcore._synchronization as synchronization  # noqa: E402

HC_DIR = os.path.dirname(_hc_file)

_WORLD = None


class _TimeShim:
    """Replaces the name `time` inside the four protocol modules."""

    @staticmethod
    def monotonic():
        w = _WORLD
        if w is None:
            raise HarnessError("time.monotonic() read outside a simulated run")
        return w.monotonic()

    @staticmethod
    def time():  # pragma: no cover
        return _TimeShim.monotonic()

    @staticmethod
    def sleep(d):  # pragma: no cover
        raise HarnessError("real time.sleep called inside the simulation")


def install():
    for m in (a_http11, a_http2, s_http11, s_http2):
        if not hasattr(m, "time"):
            raise HarnessError(f"seam missing: {m.__name__}.time")
        m.time = _TimeShim
    for name in ("threading", "anyio", "trio"):
        if not hasattr(synchronization, name):
            raise HarnessError(f"seam missing: _synchronization.{name}")


def _install_assign_hook():
    """Observe the pool handing a connection to a request (PoolRequest.assign_to_connection)
    from outside; if a refactoring renames the method the hook simply never fires."""
    import httpcore._async.connection_pool as ap
    import httpcore._sync.connection_pool as sp

    for mod, name in ((ap, "AsyncPoolRequest"), (sp, "PoolRequest")):
        cls = getattr(mod, name, None)
        orig = getattr(cls, "assign_to_connection", None)
        if orig is None or getattr(orig, "_sim_wrapped", False):
            continue

        def assign_to_connection(self, connection, _orig=orig):
            _orig(self, connection)
            w = _WORLD
            cb = getattr(w, "on_assign", None) if w is not None else None
            if cb is not None:
                cb(self, connection)

        assign_to_connection._sim_wrapped = True
        cls.assign_to_connection = assign_to_connection


def _cheap_frame_repr():
    # h2 computes repr(frame) eagerly for a trace log call that goes nowhere; DATA
    # frame reprs hex-dump the payload.  Logging only: no behaviour depends on it.
    import hyperframe.frame as hf

    hf.Frame.__repr__ = lambda self: "<%s stream=%d>" % (type(self).__name__, self.stream_id)


_cheap_frame_repr()


def set_world(w):
    global _WORLD
    _WORLD = w


def world():
    return _WORLD


install()
_install_assign_hook()
