"""Run a scenario on trio with a virtual clock and a seeded run queue (third executor).
It exercises the trio branches of httpcore/_synchronization.py (trio.Lock / Event /
Semaphore, fail_after, shielded cancel scopes)."""
from __future__ import annotations

import sys

import trio
import trio._core._run as _trun
from trio.testing import MockClock

from . import sut
from .core import Deadlock, HarnessError, StepCap, no_progress
from .scenario import (AsyncApi, Result, build_pool, build_world, caller_script, finish,
                       probe_requests)

if not hasattr(_trun, "_ALLOW_DETERMINISTIC_SCHEDULING") or not hasattr(_trun, "_r"):
    raise HarnessError("seam missing: trio._core._run deterministic scheduling switch")

FOREVER = 1.0e9


class _Deadlocked(BaseException):
    pass


class TrioExec:
    def __init__(self, world, step_cap):
        self.world = world
        self.step_cap = step_cap
        self.nsteps = 0
        self.scopes = {}
        self.inject = None
        self.injected = None
        self.task_steps = {}
        self.deadlocked = False
        self.caller_names = set()
        self.stepcap = False
        self.root_scope = None

    # executor interface ---------------------------------------------------------
    def wake(self, ev):
        ev.set()

    def ctx_name(self):
        try:
            return trio.lowlevel.current_task().name
        except RuntimeError:
            return "main"

    def ctx_site(self):
        from .aloop import stack_site

        return stack_site(sys._getframe(1))

    async def asleep(self, t):
        await trio.sleep_until(t)

    async def drive(self, wire, gen):
        try:
            until = next(gen)
            while True:
                ev = trio.Event()
                if wire is not None:
                    wire.waiters.append(ev)
                try:
                    with trio.move_on_at(FOREVER if until is None else until):
                        await ev.wait()
                finally:
                    if wire is not None:
                        try:
                            wire.waiters.remove(ev)
                        except ValueError:
                            pass
                if until is None and trio.current_time() >= FOREVER:
                    self._deadlock()
                until = gen.send(None)
        except StopIteration as e:
            return e.value
        finally:
            gen.close()

    def snapshot_blocked(self):
        """(caller, site) of every caller task still alive, taken before the teardown
        cancels them."""
        from .aloop import hc_site

        out = []
        stack = [trio.lowlevel.current_root_task()]
        while stack:
            t = stack.pop()
            for n in t.child_nurseries:
                stack.extend(n.child_tasks)
            if t.name in self.caller_names:
                frames = []
                if t is trio.lowlevel.current_task():
                    import sys
                    f = sys._getframe(1)
                    while f is not None:
                        frames.append((f.f_code.co_filename, f.f_code.co_name))
                        f = f.f_back
                    frames.reverse()
                else:
                    try:
                        for f, _ in t.iter_await_frames():
                            frames.append((f.f_code.co_filename, f.f_code.co_name))
                    except Exception:  # noqa: BLE001
                        pass
                out.append((t.name, hc_site(frames)))
        self.blocked = sorted(out)

    def _deadlock(self):
        if not self.deadlocked:
            self.snapshot_blocked()
        self.deadlocked = True
        if self.root_scope is not None:
            self.root_scope.cancel()
        raise _Deadlocked()


class _Instrument(trio.abc.Instrument):
    def __init__(self, ex):
        self.ex = ex

    def after_task_step(self, task):
        ex = self.ex
        ex.nsteps += 1
        if ex.nsteps == ex.step_cap // 2:
            ex.half_mark = (ex.world.now, ex.world.opcount)
        if ex.nsteps > ex.step_cap and not ex.stepcap:
            ex.stepcap = True
            if no_progress(getattr(ex, "half_mark", None), ex.world):
                ex.snapshot_blocked()
                ex.spinning = True
            if ex.root_scope is not None:
                ex.root_scope.cancel()
        n = ex.task_steps.get(task.name, 0) + 1
        ex.task_steps[task.name] = n
        inj = ex.inject
        if inj is not None and task.name == inj["caller"] and n == inj["step"]:
            ex.inject = None
            sc = ex.scopes.get(task.name)
            if sc is not None:
                from .aloop import hc_site

                frames = []
                try:
                    for f, _ in task.iter_await_frames():
                        frames.append((f.f_code.co_filename, f.f_code.co_name))
                except Exception:  # noqa: BLE001
                    pass
                ex.injected = {"site": hc_site(frames), "shield": False, "t": ex.world.now}
                ex.world.log("cancel_inject", task.name, "scope", "early", n,
                             ex.injected["site"], False)
                ex.world.stats["cancel:trio-scope:early"] += 1
                sc.cancel()
        cb = ex.world.on_change
        if cb is not None:
            cb()


def run_trio(scn, observers=()):
    world = build_world(scn)
    sut.set_world(world)
    res = Result()
    ex = TrioExec(world, scn.get("step_cap", 200000))
    world.executor = ex
    world.ctx_name = ex.ctx_name
    world.ctx_site = ex.ctx_site
    world._clock = None
    cancel = scn.get("cancel")
    _trun._ALLOW_DETERMINISTIC_SCHEDULING = True
    _trun._r.seed(f"{world.seed}/trio-sched")

    async def wrapped(api, name, caller):
        try:
            if cancel is not None and cancel.get("caller") == name:
                with trio.CancelScope() as sc:
                    ex.scopes[name] = sc
                    await caller_script(api, world, name, caller)
                if sc.cancelled_caught:
                    world.log("scope_cancelled", name)
            else:
                await caller_script(api, world, name, caller)
        except _Deadlocked:
            pass

    async def main():
        world._clock = trio.current_time
        pool = build_pool(scn, world, sync=False)
        world.pool = pool
        api = AsyncApi(world, pool)
        world.api = api
        for ob in observers:
            if hasattr(ob, "setup"):
                ob.setup(world, pool)
        chg = [ob.on_change for ob in observers if hasattr(ob, "on_change")]
        if chg:
            def on_change():
                world.observing = True
                try:
                    for f in chg:
                        f()
                finally:
                    world.observing = False
            world.on_change = on_change
        if cancel is not None:
            if cancel.get("kind") == "deadline":
                pass
            else:
                ex.inject = dict(cancel)
        with trio.CancelScope() as root:
            ex.root_scope = root
            async with trio.open_nursery() as nursery:
                async def watchdog():
                    await trio.sleep_until(FOREVER)
                    if not ex.deadlocked:
                        ex.snapshot_blocked()
                    ex.deadlocked = True
                    root.cancel()

                nursery.start_soon(watchdog, name="watchdog")
                async with trio.open_nursery() as callers:
                    for i, c in enumerate(scn.get("callers", ())):
                        ex.caller_names.add(f"c{i}")
                        callers.start_soon(wrapped, api, f"c{i}", c, name=f"c{i}")
                    if cancel is not None and cancel.get("kind") == "deadline":
                        async def fire():
                            await trio.sleep_until(cancel["t"])
                            sc = ex.scopes.get(cancel["caller"])
                            if sc is not None:
                                world.log("cancel_inject", cancel["caller"], "scope", "deadline")
                                world.stats["cancel:trio-scope:deadline"] += 1
                                ex.injected = {"site": None, "shield": False, "t": world.now}
                                sc.cancel()
                        callers.start_soon(fire, name="deadline")
                world.log("callers_done")
                world.faults_by_op = {}
                world.net.fault_rates = {}
                ex.inject = None
                for step in scn.get("epilogue", ()):
                    if step == "settle":
                        await trio.sleep(1.0)
                    elif step == "gc":
                        pass
                    elif step == "observe":
                        for ob in observers:
                            if hasattr(ob, "observe"):
                                world.observing = True
                                try:
                                    ob.observe("epilogue")
                                finally:
                                    world.observing = False
                    elif step == "probe":
                        n = scn.get("pool", {}).get("max_connections", 10) or 3
                        world.probe_result = await probe_requests(api, world, scn, min(n, 4))
                    elif step == "close_pool":
                        await pool.aclose()
                        world.log("pool_closed", "main")
                    else:
                        raise HarnessError(f"unknown epilogue step {step}")
                nursery.cancel_scope.cancel()

    blocked = None
    import contextlib
    l2 = contextlib.nullcontext()
    if scn.get("seam") == "L2":
        from .l2 import Installed

        l2 = Installed(world, sync=False, lib="trio")
    try:
        with l2:
            trio.run(main, clock=MockClock(autojump_threshold=0),
                     instruments=[_Instrument(ex)])
    except _Deadlocked:
        ex.deadlocked = True
    except BaseExceptionGroup as eg:  # noqa: F821
        if eg.subgroup(_Deadlocked) is not None:
            ex.deadlocked = True
        else:
            raise
    finally:
        world._now = world.now if world._clock is None else world._now
        last = None
        try:
            last = max((e[1] for e in world.ledger.ev), default=0.0)
        except ValueError:
            pass
        world._clock = None
        world._now = min(last or 0.0, FOREVER)
    if ex.deadlocked:
        res.error = "deadlock"
        res.blocked = list(getattr(ex, "blocked", None) or ())
        world.log("DEADLOCK", tuple(res.blocked))
    elif ex.stepcap and getattr(ex, "spinning", False):
        res.error = "deadlock"
        res.blocked = [(n, "spin@" + str(s)) for n, s in (getattr(ex, "blocked", None) or ())]
        world.log("LIVELOCK", tuple(res.blocked))
    elif ex.stepcap:
        res.error = "stepcap"
    res.info["steps"] = ex.nsteps
    res.info["task_steps"] = dict(ex.task_steps)
    res.info["injected"] = ex.injected
    res.info["opcount"] = world.opcount
    finish(res, world)
    for ob in observers:
        if hasattr(ob, "post"):
            ob.post(res)
    res.violations = list(world.violations)
    sut.set_world(None)
    return res
