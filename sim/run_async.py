"""Run a scenario on the virtual-time asyncio executor."""
from __future__ import annotations

import asyncio

import anyio

from . import aloop, sut
from .core import Deadlock, HarnessError, StepCap
from .scenario import (AsyncApi, Result, build_pool, build_world, caller_script,
                       finish, probe_requests)


def run_async(scn, observers=()):
    world = build_world(scn)
    sut.set_world(world)
    res = Result()
    cancel = scn.get("cancel")

    async def wrapped(loop, api, name, caller):
        kind = caller.get("scope")
        try:
            if kind == "scope":
                with anyio.CancelScope() as sc:
                    loop.scopes[name] = sc
                    await caller_script(api, world, name, caller)
                if sc.cancelled_caught:
                    world.log("scope_cancelled", name)
            elif kind == "deadline":
                with anyio.move_on_after(caller["deadline"]) as sc:
                    await caller_script(api, world, name, caller)
                if sc.cancelled_caught:
                    world.log("scope_cancelled", name)
                    world.stats["cancel:deadline"] += 1
            else:
                await caller_script(api, world, name, caller)
        except asyncio.CancelledError:
            world.log("task_cancelled", name)

    async def main(loop):
        pool = build_pool(scn, world, sync=False)
        world.pool = pool
        api = AsyncApi(world, pool)
        world.api = api
        for ob in observers:
            if hasattr(ob, "setup"):
                ob.setup(world, pool)
        chg = [ob.on_change for ob in observers if hasattr(ob, "on_change")]
        if chg:
            def on_change():
                world.observing = True
                try:
                    for f in chg:
                        f()
                finally:
                    world.observing = False
            world.on_change = on_change
        qs = [ob.on_quiescent for ob in observers if hasattr(ob, "on_quiescent")]
        if qs:
            def on_q():
                world.observing = True
                try:
                    for f in qs:
                        f()
                finally:
                    world.observing = False
            loop.on_quiescent = on_q
        if cancel is not None and cancel.get("kind") in ("native", "scope"):
            loop.inject = dict(cancel)
        if scn.get("record_sites"):
            loop.record_sites = (scn["record_sites"], [])
        ts = []
        for i, c in enumerate(scn.get("callers", ())):
            name = f"c{i}"
            c = dict(c)
            if cancel is not None and cancel.get("caller") == name:
                if cancel["kind"] in ("scope", "deadline"):
                    c["scope"] = "scope"
            t = loop.create_task(wrapped(loop, api, name, c), name=name)
            loop.caller_tasks[name] = t
            ts.append(t)
        if cancel is not None and cancel.get("kind") == "deadline":
            # a deadline is a scope cancellation delivered at a virtual instant
            def fire():
                t = loop.caller_tasks.get(cancel["caller"])
                if t is not None and not t.done() and cancel["caller"] in loop.scopes:
                    loop._deliver(t, {"caller": cancel["caller"], "kind": "scope",
                                      "timing": "deadline", "step": t._sim_steps})
            loop.call_at(cancel["t"], fire)
        if ts:
            await asyncio.wait(ts)
        world.log("callers_done")
        # epilogue: faults off
        world.faults_by_op = {}
        world.net.fault_rates = {}
        loop.inject = None
        for step in scn.get("epilogue", ()):
            if step == "settle":
                await aloop.sleep_until(loop, world.now + 1.0)
            elif step == "gc":
                import gc
                gc.collect()
                await aloop.sleep_until(loop, world.now + 0.001)
            elif step == "observe":
                for ob in observers:
                    if hasattr(ob, "observe"):
                        world.observing = True
                        try:
                            ob.observe("epilogue")
                        finally:
                            world.observing = False
            elif step == "probe":
                n = scn.get("pool", {}).get("max_connections", 10) or 3
                world.probe_result = await probe_requests(api, world, scn, min(n, 4))
            elif step == "close_pool":
                await pool.aclose()
                world.log("pool_closed", "main")
            else:
                raise HarnessError(f"unknown epilogue step {step}")
        return True

    if scn.get("seam") == "L2":
        from .l2 import Installed

        with Installed(world, sync=False):
            r, err = aloop.run(world, main, sched=scn.get("sched", "fifo"),
                               step_cap=scn.get("step_cap", 200000))
    else:
        r, err = aloop.run(world, main, sched=scn.get("sched", "fifo"),
                           step_cap=scn.get("step_cap", 200000))
    loop = world.executor
    if isinstance(err, Deadlock):
        res.error = "deadlock"
        res.blocked = err.blocked
        world.log("DEADLOCK", tuple(err.blocked))
    elif isinstance(err, StepCap):
        if getattr(err, "spinning", False):
            # a livelock is reported like a deadlock: nobody makes progress any more
            res.error = "deadlock"
            res.blocked = [(n, "spin@" + str(s)) for n, s in err.blocked]
            world.log("LIVELOCK", tuple(res.blocked))
        else:
            res.error = "stepcap"
    res.info["steps"] = loop.nsteps
    res.info["spins"] = loop.spins
    res.info["task_steps"] = {n: t._sim_steps for n, t in loop.caller_tasks.items()}
    res.info["injected"] = loop.injected
    if loop.record_sites is not None:
        res.info["step_sites"] = loop.record_sites[1]
    res.info["opcount"] = world.opcount
    finish(res, world)
    for ob in observers:
        if hasattr(ob, "post"):
            ob.post(res)
    res.violations = list(world.violations)
    sut.set_world(None)
    return res
