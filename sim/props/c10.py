"""C10 — requests travel only on connections made for their origin, TLS per scheme."""
from __future__ import annotations

from .. import gen
from . import register
from .common import ScenarioFamily

HOSTS = ["a.test", "b.test", "10.0.0.1", "[::1]"]
PORTS = {"http": [80, 8080], "ws": [80, 8080], "https": [443, 8443], "wss": [443, 8443]}
DEFAULT = {"http": 80, "ws": 80, "https": 443, "wss": 443}
PROXIES = ["none", "none", "none", "http", "https", "socks5", "socks5h"]


def bare(host):
    return host[1:-1] if host.startswith("[") else host


class OriginFamily(ScenarioFamily):
    chunk = 40

    def __init__(self, name, ex, nq, nt):
        super().__init__("C10", name, nq, nt)
        self.ex = ex

    def generate(self, seed, index, tier):
        r = gen.mk_rng(seed, "c10")
        proxy = PROXIES[index % len(PROXIES)]
        http2 = r.random() < 0.5
        http1 = not (http2 and r.random() < 0.25)
        pool = {"max_connections": r.choice([1, 2, 10, 10]), "http1": http1, "http2": http2}
        rc = gen.mk_rng(seed, "c10ctx")
        if rc.random() < 0.3:
            # the ssl context has been used before (e.g. by a pool with other switches)
            pool["ctx_alpn"] = rc.choice([["http/1.1", "h2"], ["h2"], ["http/1.1"], ["h2", "http/1.1"]])
        eps = {}
        # every (host, port) of the near-miss set exists; TLS ports are 443/8443
        for h in HOSTS:
            for port in (80, 8080, 443, 8443):
                tls = port in (443, 8443)
                cfg = {"kind": "origin", "tls": tls}
                if tls:
                    cfg["alpn"] = r.choice([["h2", "http/1.1"], ["http/1.1"], ["http/1.1", "h2"]])
                eps[f"{bare(h)}:{port}"] = cfg
        if proxy == "http":
            eps["px.test:3128"] = {"kind": "http_proxy"}
            pool["proxy"] = {"url": "http://px.test:3128"}
        elif proxy == "https":
            eps["spx.test:3129"] = {"kind": "http_proxy", "tls": True}
            pool["proxy"] = {"url": "https://spx.test:3129"}
        elif proxy in ("socks5", "socks5h"):
            eps["sk.test:1080"] = {"kind": "socks"}
            pool["proxy"] = {"url": f"{proxy}://sk.test:1080"}
        if proxy != "none" and r.random() < 0.3:
            pool["proxy"]["style"] = "legacy"
        # a proxy may refuse to establish the stream: nothing meant for the origin may
        # then be written to it
        refuse = False
        rr = gen.mk_rng(seed, "c10refuse")
        if proxy in ("http", "https") and rr.random() < 0.2:
            refuse = True
            st = rr.choice([300, 302, 307, 399, 400, 403, 407, 500, 502, 503])
            plan = {"status": st, "reason": rr.choice([b"Found", b"Nope", b"OK"]),
                    "framing": "none", "headers": [], "header_lines": []}
            if st >= 200 and rr.random() < 0.5:
                plan.update(framing="cl", body_len=0, headers=[[b"Content-Length", b"0"]],
                            header_lines=[b"Content-Length: 0"])
            next(v for v in eps.values() if v["kind"] == "http_proxy")["connect_plan"] = plan
        elif proxy in ("socks5", "socks5h") and rr.random() < 0.15:
            refuse = True
            eps["sk.test:1080"]["reply_code"] = rr.choice([1, 2, 3, 4, 5, 6, 7, 8])
        # a small set of near-miss origins
        base_host = r.choice(HOSTS)
        cands = []
        for scheme in ("http", "https", "ws", "wss"):
            for port in PORTS[scheme]:
                for explicit in (False, True):
                    if port != DEFAULT[scheme] and not explicit:
                        continue
                    cands.append((scheme, base_host, port, explicit))
        cands.append((r.choice(["http", "https"]), r.choice([h for h in HOSTS if h != base_host]),
                      None, False))
        origins = r.sample(cands, r.randint(2, 4))
        ops = []
        n = r.randint(2, 6)
        for i in range(n):
            scheme, host, port, explicit = r.choice(origins)
            if port is None:
                port = DEFAULT[scheme]
            auth = f"{host}:{port}" if explicit else host
            tok = f"o{i}"
            plan = gen.gen_resp_plan(r, tok.encode(), "GET",
                                     {"body_len": r.choice([0, 10, 300]), "p_interim": 0.0,
                                      "p_conn_close": 0.1, "p_http10": 0.0, "p_think": 0.1,
                                      "framings": ["cl", "chunked"]})
            op = {"op": "request", "token": tok, "url": f"{scheme}://{auth}/t/{tok}",
                  "resp": plan, "timeouts": {"connect": 5.0, "read": 5.0, "write": 5.0, "pool": 5.0}}
            if r.random() < 0.25 and scheme in ("https", "wss"):
                op["sni_hostname"] = "sni.example"
            ops.append(op)
        # concurrency is C01/C08's business; two async callers exercise shared pools
        ncall = 1 if (self.ex == "threads" or r.random() < 0.7) else 2
        callers = [{"ops": ops[i::ncall]} for i in range(ncall)]
        if self.ex == "asyncio" and rc.random() < 0.3:
            # another user of the same ssl context (a pool with the opposite http2 switch)
            # keeps setting its own ALPN list on it while this pool connects
            other = ["http/1.1"] if http2 else ["http/1.1", "h2"]
            mops = []
            for _ in range(rc.randint(4, 12)):
                mops.append({"op": "sleep", "d": rc.choice([0.0, 0.0, 0.0003, 0.001, 0.004])})
                mops.append({"op": "ctx_alpn", "protos": other})
            callers.append({"start": rc.choice([0.0, 0.0, 0.0005]), "ops": mops})
        scn = {"seed": seed, "exec": self.ex, "pool": pool,
               "net": {"latency": r.choice(["zero", "fixed", "small"]), "seg": "whole",
                       "endpoints": eps},
               "callers": callers, "epilogue": ["close_pool"],
               "c10": {"proxy": proxy, "refuse": refuse}}
        if self.ex == "threads":
            scn["policy"] = {"mode": "ops", "op_p": 0.5}
        return scn

    def post(self, res, scn):
        origin_oracle(res, scn)

    def nontrivial(self, res, scn):
        return True


def parse_url(u):
    scheme, rest = u.split("://", 1)
    auth = rest.split("/", 1)[0]
    if auth.startswith("["):
        host, _, p = auth[1:].partition("]")
        port = int(p[1:]) if p.startswith(":") else DEFAULT[scheme]
    elif ":" in auth:
        host, p = auth.rsplit(":", 1)
        port = int(p)
    else:
        host, port = auth, DEFAULT[scheme]
    return scheme, host, port


def origin_oracle(res, scn):
    w = res.world
    pool = scn["pool"]
    http2, http1 = pool.get("http2", False), pool.get("http1", True)
    proxy = scn["c10"]["proxy"]
    led = w.ledger
    for e in led.of("tls_on_plain_endpoint"):
        w.violate("C10", "tls-started-on-plain-scheme:%s" % proxy, {"wire": e[3], "label": e[4]})
        return
    for e in led.of("plain_on_tls_endpoint"):
        w.violate("C10", "plaintext-sent-on-tls-scheme:%s" % proxy, {"wire": e[3], "label": e[4]})
        return
    heads = {}   # token -> (wire, label)
    for e in led.of("srv_head"):
        if e[6] is not None:
            heads[e[6]] = (e[3], e[4])
    for e in led.of("h2_req"):
        if e[6] is not None:
            heads[e[6]] = (e[3], e[4])
    tls_ev = {}
    for e in led.of("origin_tls"):
        tls_ev[e[3]] = e
    # the request on whose behalf each TLS upgrade was started
    tls_tok = {}
    for e in led.of("op"):
        if e[4] == "tls":
            tls_tok[e[5]] = e[7]
    proto = {e[3]: e[5] for e in led.of("origin_proto")}
    per_wire = {}
    for tok, (wid, label) in sorted(heads.items()):
        call = w.calls.get(tok)
        if call is None:
            continue
        op = call["op"]
        scheme, host, port = parse_url(op["url"])
        forward = proxy in ("http", "https") and scheme == "http"
        if forward:
            if not label.startswith("proxy:"):
                w.violate("C10", "forwardable-request-bypassed-proxy", {"token": tok, "label": label})
                return
            continue
        want = f"origin:{host}:{port}"
        if label != want:
            w.violate("C10", "request-on-connection-to-other-endpoint",
                      {"token": tok, "label": label, "want": want})
            return
        per_wire.setdefault(wid, set()).add((scheme, host, port))
        wants_tls = scheme in ("https", "wss")
        t = tls_ev.get(wid)
        if wants_tls != (t is not None):
            w.violate("C10", "tls-%s-for-scheme-%s:%s" % (
                "missing" if wants_tls else "present", scheme, proxy), {"token": tok})
            return
        if t is not None:
            sni, offered = t[5], t[6]
            est = w.calls.get(tls_tok.get(wid), {}).get("op", op)
            want_sni = est.get("sni_hostname") or host
            if sni != want_sni:
                w.violate("C10", "wrong-sni:%s" % proxy, {"token": tok, "sni": sni, "want": want_sni})
                return
            if ("h2" in offered) != bool(http2):
                w.violate("C10", "alpn-offer-mismatch:%s" % proxy,
                          {"token": tok, "offered": offered, "http2": http2})
                return
        sel = None
        wire = w.wires[wid]
        if wire.tls:
            sel = wire.tls[-1].selected
        want_h2 = (sel == "h2") or (http2 and not http1)
        if (proto.get(wid) == "h2") != want_h2:
            w.violate("C10", "wrong-http-version-spoken:%s" % ("h2" if proto.get(wid) == "h2" else "h1"),
                      {"token": tok, "alpn": sel, "http1": http1, "http2": http2})
            return
    for wid, origs in per_wire.items():
        if len(origs) > 1:
            w.violate("C10", "connection-shared-by-distinct-origins", {"wire": wid, "origins": sorted(origs)})
            return
    for e in led.of("proxy_tls"):
        if "h2" in e[6]:
            w.violate("C10", "h2-offered-on-proxy-hop", {"offered": e[6]})
            return
    # fault-free, well-behaved peers: every request succeeds - except that a request
    # whose stream the proxy refused to establish fails (which error is C15's business)
    refuse = scn["c10"].get("refuse")
    for key, out in sorted(res.outcomes.items()):
        if refuse:
            scheme = parse_url(w.calls[out["token"]]["op"]["url"])[0]
            tunnelled = not (proxy in ("http", "https") and scheme == "http")
            if tunnelled:
                if "status" in out:
                    w.violate("C10", "refused-stream-used:%s" % proxy,
                              {"key": key, "outcome": out.get("exc") or out.get("status")})
                    return
                continue
        if "exc" in out and out["exc"] != "PoolTimeout":
            w.violate("C10", "request-failed:%s:%s" % (out["exc"], proxy),
                      {"key": key, "msg": out.get("msg"), "url": w.calls[out["token"]]["op"]["url"]})
            return


register("C10", {
    "level": "exploration",
    "rule": "scheme in {http,https,ws,wss} x proxy in {none, http, https, socks5, socks5h} x "
            "http1/http2 switches x server ALPN preference x sni_hostname on/off x hosts (names, "
            "IPv4, IPv6 literal) x explicit/implicit ports; histories of 2..6 requests over 2..4 "
            "near-miss origins (same host other scheme, same host other port, explicit-default vs "
            "implicit port) through one pool, one or two callers; in a third of the runs the ssl "
            "context arrives with an ALPN list already set on it (as after use by another pool); a fifth of the HTTP proxies "
            "refuse CONNECT (3xx/4xx/5xx) and a sixth of the SOCKS proxies refuse the request: "
            "nothing meant for the origin may then be written; oracle on the ledger of "
            "connect/CONNECT/SOCKS targets, TLS layers, SNI, ALPN offers and the protocol the "
            "origin peer sniffed; all runs non-trivial",
    "assumptions": ["TLS is a recorded transparent layer (no cryptography)"],
}, [OriginFamily("origins-async", "asyncio", 3000, 60000),
    OriginFamily("origins-threads", "threads", 600, 12000)])
