"""C14 — a request is put on the wire at most once unless the server refused it."""
from __future__ import annotations

import copy

from .. import gen
from ..runner import Family, Unit
from ..scenario import run_scenario
from . import register


def base(seed, index, ex="asyncio"):
    r = gen.mk_rng(seed, "c14")
    h2 = index % 2 == 1
    tls = h2 or r.random() < 0.3
    scheme, port = ("https", 443) if tls else ("http", 80)
    n = r.choice([1, 2, 2, 3])
    pool = {"max_connections": r.choice([1, 2, 3]), "retries": r.choice([0, 1, 3])}
    ep = {"kind": "origin", "tls": tls}
    if tls:
        ep["alpn"] = ["h2", "http/1.1"] if h2 else ["http/1.1"]
    if h2:
        pool["http2"] = True
        ep["h2"] = {"settings": {"max_concurrent_streams": r.choice([1, 10, 100])},
                    "wu": r.choice(["eager", "tiny", "late"])}
    callers = []
    for ci in range(n):
        ops = []
        for oi in range(r.choice([1, 1, 2])):
            tok = f"a{ci}_{oi}"
            method = r.choice(["GET", "POST", "PUT"])
            op = {"op": "request", "token": tok, "method": method,
                  "url": f"{scheme}://a.test/t/{tok}",
                  "resp": gen.gen_resp_plan(r, tok.encode(), method,
                                            {"body_len": r.choice([0, 30, 2000]), "p_interim": 0.0,
                                             "p_conn_close": 0.15, "p_http10": 0.0,
                                             "p_early": 0.3, "framings": ["cl", "chunked"]}),
                  "timeouts": {"connect": 2.0, "read": 2.0, "write": 2.0, "pool": 30.0}}
            if method != "GET":
                nb = r.choice([0, 100, 3000])
                op["body"] = {"len": nb, "chunks": gen.gen_chunks(r, nb), "oneshot": False}
            ops.append(op)
        callers.append({"start": r.choice([0.0, 0.0, 0.001, 0.01]), "ops": ops})
    eps = {f"a.test:{port}": ep}
    rp = gen.mk_rng(seed, "c14proxy")
    pk = rp.choice(["none", "none", "none", "http", "socks"])
    if pk == "http":
        # tunnel for https origins, forwarding for http ones
        eps["px.test:8080"] = {"kind": "http_proxy"}
        pool["proxy"] = {"url": "http://px.test:8080"}
    elif pk == "socks":
        eps["sk.test:1080"] = {"kind": "socks", "auth": None}
        pool["proxy"] = {"url": "socks5://sk.test:1080"}
    return {"seed": seed, "exec": ex, "sched": "fifo", "pool": pool,
            "net": {"latency": r.choice(["zero", "fixed", "small"]),
                    "seg": r.choice(["whole", "random"]),
                    "endpoints": eps},
            "callers": callers, "epilogue": ["close_pool"], "c14": {"h2": h2}}


def once_oracle(res, scn):
    w = res.world
    led = w.ledger
    h2 = scn["c14"]["h2"]
    wires_of = {}     # token -> {wire: first seq}
    if not h2:
        for e in led.of("c2s"):
            tok = e[6]
            # the request itself (its line names the token), not a CONNECT or a SOCKS
            # negotiation made on its behalf
            if tok is not None and tok in w.calls and (b"/t/" + tok) in bytes(e[7]) \
                    and not bytes(e[7]).startswith(b"CONNECT "):
                wires_of.setdefault(tok, {}).setdefault(e[3], e[0])
    stream_of = {}    # (wire, token) -> sid
    for e in led.of("h2_req"):
        pass
    for e in led.of("h2_stream_open"):
        pass
    if h2:
        # HEADERS frames decoded by the independent ledger: stream -> token
        for x in w.wires:
            peer = getattr(x.peer, "inner", None)
            fl = getattr(peer, "ledger", None)
            if fl is None:
                continue
            for sid, st in fl.streams.items():
                tok = dict(st["headers"]).get(b"x-token")
                if tok is not None and tok in w.calls:
                    wires_of.setdefault(tok, {}).setdefault(x.id, sid)
                    stream_of[(x.id, tok)] = sid
    goaway = {}       # wire -> last_stream_id
    for e in led.of("h2_srv_goaway"):
        goaway[e[3]] = e[4]
    for tok, ws in sorted(wires_of.items()):
        if len(ws) <= 1:
            continue
        # every wire but the last must have refused the stream by GOAWAY
        order = sorted(ws, key=lambda wid: wid)
        unexplained = []
        for wid in order[:-1]:
            sid = stream_of.get((wid, tok))
            if h2 and wid in goaway and sid is not None and sid > goaway[wid]:
                continue
            unexplained.append(wid)
        if unexplained:
            fs = w.fault_sites[0] if w.fault_sites else None
            why = ("after-%s" % fs[1]) if fs else (
                "after-goaway" if goaway else "after-rst" if led.of("h2_srv_rst") else "no-fault")
            w.violate("C14", "request-bytes-on-two-connections:%s:%s" % ("h2" if h2 else "h1", why),
                      {"token": tok, "wires": order, "goaway": goaway,
                       "streams": {k[0]: v for k, v in stream_of.items() if k[1] == tok}})
            return
    for tok, n in sorted(w.processed.items(), key=lambda kv: str(kv[0])):
        if tok in w.calls and n > 1:
            w.violate("C14", "server-processed-request-twice:%s" % ("h2" if h2 else "h1"),
                      {"token": tok, "n": n})
            return
    # after the client has read a GOAWAY, no new stream on that wire
    for e in led.of("h2_srv_goaway"):
        wid = e[3]
        off = getattr(w.wires[wid].peer.inner, "goaway_offset", None)
        if off is None:
            continue
        cum = 0
        seen_seq = None
        for x in led.of("s2c"):
            if x[3] == wid and isinstance(x[5], bytes):
                cum += len(x[5])
                if cum >= off:
                    seen_seq = x[0]
                    break
        if seen_seq is None:
            continue
        # allow streams whose HEADERS were already queued: only flag opens that follow a
        # later client write operation
        later = [s for s in led.of("h2_stream_open") if s[3] == wid and s[0] > seen_seq]
        writes = [o for o in led.of("op") if o[4] == "send" and o[5] == wid and o[0] > seen_seq]
        if later and writes and later[0][0] > writes[0][0] and len(writes) > 1:
            w.violate("C14", "new-stream-after-goaway", {"wire": wid, "streams": [s[4] for s in later]})
            return
    # liveness half: refused by GOAWAY with 0 < last < sid => transparently re-sent
    for (wid, tok), sid in sorted(stream_of.items()):
        last = goaway.get(wid)
        if last is not None and 0 < last < sid and not w.fault_sites:
            out = next((o for o in res.outcomes.values() if o["token"] == tok), None)
            # a network error while the GOAWAY was still unread is a legitimate race; a
            # protocol-level failure means the client knew the stream was refused
            if out is not None and out.get("exc") in ("RemoteProtocolError", "LocalProtocolError"):
                msg = out.get("msg") or ""
                # two root causes: frames following the GOAWAY are rejected by h2's closed
                # client state machine (the ConnectionTerminated event of that batch is
                # lost), or the GOAWAY was seen while the request was still sending
                cause = ("frames-after-goaway" if "ConnectionState.CLOSED" in msg
                         and "ConnectionTerminated" not in msg else "seen-while-sending")
                w.violate("C14", "refused-stream-not-resent:%s" % cause,
                          {"token": tok, "sid": sid, "last": last, "msg": out.get("msg")})
                return


class OnceFamily(Family):
    chunk = 1
    SLICES = 4

    def __init__(self, name, ex, nq, nt):
        self.prop = "C14"
        self.name = name
        self.ex = ex
        self.n_quick, self.n_thorough = nq, nt

    def units(self, tier):
        return (self.n_quick if tier == "quick" else self.n_thorough) * self.SLICES

    def run_scenario(self, scn):
        res = run_scenario(scn, [])
        once_oracle(res, scn)
        res.violations = list(res.world.violations)
        return res

    def variants(self, b, dry):
        out = []
        for e in dry.world.ledger.of("op"):
            n, kind = e[3], e[4]
            nvar = {"connect": 2, "tls": 2, "recv": 3, "send": 2}.get(kind, 0)
            for v in range(nvar):
                s = copy.deepcopy(b)
                s["faults"] = [{"at": n, "kind": "auto", "variant": v}]
                out.append(s)
        if b["c14"]["h2"]:
            nreq = sum(len(c["ops"]) for c in b["callers"])
            key = next(iter(b["net"]["endpoints"]))
            for k in range(1, nreq + 1):
                for last in ("zero", "below", "equal", "above"):
                    for delay in (0.0, 0.003):
                        s = copy.deepcopy(b)
                        s["net"]["endpoints"][key]["h2"]["events"] = [
                            {"when": {"after_headers": k, "delay": delay}, "do": "goaway",
                             "last": last, "close": True}]
                        out.append(s)
                for nth in (0, 1):
                    s = copy.deepcopy(b)
                    s["net"]["endpoints"][key]["h2"]["events"] = [
                        {"when": {"after_headers": k}, "do": "rst", "nth": nth,
                         "code": [7, 8, 2][k % 3]}]
                    out.append(s)
        return out

    def run_unit(self, seed, index, tier):
        from ..core import sub_seed

        u = Unit()
        bi, sl = divmod(index, self.SLICES)
        b = base(sub_seed(getattr(self, "check_seed", 0), "c14base", bi), bi, self.ex)
        if self.ex == "threads":
            b["policy"] = {"mode": "ops", "op_p": 0.5}
            b.pop("sched", None)
        dry = self.run_scenario(b)
        if sl == 0:
            u.add_result(dry, b, "C14", nontrivial=len(b["callers"]) > 1, keep_sample=(bi % 9 == 0))
        if dry.error or any("exc" in o for o in dry.outcomes.values()):
            if sl == 0:
                u.viols.append({"prop": "C14", "sig": "base-scenario-unhealthy",
                                "detail": repr((dry.error, {str(k): (v.get("exc"), v.get("msg"))
                                                            for k, v in dry.outcomes.items()})),
                                "scenario": b, "digest": dry.digest})
            return u
        vs = self.variants(b, dry)[sl::self.SLICES]
        for s in vs:
            res = self.run_scenario(s)
            u.add_result(res, s, "C14", nontrivial=True)
        u.extra["sweep_variants_run"] = len(vs)
        return u


register("C14", {
    "level": "fault_enumeration",
    "rule": "per seeded base (HTTP/1.1 or HTTP/2, direct, through a tunnelling / forwarding "
            "HTTP proxy or SOCKS5, 1..3 concurrent callers of 1..2 requests, "
            "retries in {0,1,3}): every fault kind x every network operation index, and for "
            "HTTP/2 GOAWAY with last-stream-id in {0, below, equal, above} x every request count x "
            "two delays, and RST_STREAM of each stream; oracle = per-call set of connections that "
            "saw its bytes (HTTP/1.1: by writing caller; HTTP/2: by the independent frame "
            "ledger), tokens processed once, refused streams re-sent; all variants non-trivial",
    "assumptions": ["fault positions are enumerated completely per base; bases are sampled"],
}, [OnceFamily("once-async", "asyncio", 60, 600), OnceFamily("once-threads", "threads", 16, 160)])
