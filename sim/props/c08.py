"""C08 — the synchronous pool is thread-safe."""
from __future__ import annotations

from .. import oracles
from . import register
from .common import PoolMixFamily


def in_use_closed_by_other(res):
    """Tokens whose connection was closed by *another* thread while the request was
    using it (the ledger shows who closed which wire, and when)."""
    w = res.world
    led = w.ledger
    span = {}      # token -> (first seq, last seq, caller)
    for e in led.of("call"):
        span[e[4]] = [e[0], None, e[3]]
    for e in led.of("ret", "exc"):
        if e[4] in span:
            span[e[4]][1] = e[0]
    used = {}      # token -> set of wires
    for e in led.of("op"):
        if e[7] is not None and e[5] is not None and e[5] >= 0:
            used.setdefault(e[7], set()).add(e[5])
    out = {}
    for e in led.of("wire_closing"):
        wid, by = e[3], e[4]
        for tok, ws in used.items():
            if wid in ws and tok in span:
                a, b, caller = span[tok]
                if by != caller and a < e[0] and (b is None or e[0] < b):
                    out[tok] = (wid, by, e[5])
    return out


def thread_oracle(res):
    _thread_oracle(res)
    w = res.world
    pol = w.scn.get("policy") or {}
    mine = [v for v in w.violations if v[0] == "C08"]
    if mine and _h2_shared(res) and pol.get("mode") in ("lines", "pct"):
        # One root cause: the synchronous HTTP/2 connection guards only its socket reads
        # and writes with locks; stream-id allocation, the h2 state machine, the event
        # table and the stream-slot accounting are multi-line critical sections without
        # one.  Under line-level pre-emption of two threads sharing the connection the
        # symptoms are arbitrary (duplicate stream ids -> KeyError / LocalProtocolError,
        # lost events -> hangs, stale state -> unserviced waiters).
        w.violations[:] = [v for v in w.violations if v[0] != "C08"]
        w.violate("C08", "h2-connection-shared-by-threads:line-preemption",
                  {"symptoms": sorted({v[1] for v in mine})})


def _thread_oracle(res):
    w = res.world
    h2_shared = _h2_shared(res)
    tag = ":h2-shared" if h2_shared else ""
    n0 = len(w.violations)
    oracles.token_oracle(res, "C08")
    oracles.exchange_order_oracle(res, "C08")
    if len(w.violations) > n0:
        w.violations[n0:] = [(p, s + tag, d) for (p, s, d) in w.violations[n0:]]
        return
    if res.error == "deadlock":
        from .c12 import blocked_sites

        w.violate("C08", "deadlock%s:%s" % (tag, ",".join(blocked_sites(res))[:150]),
                  {"blocked": res.blocked})
        return
    if res.error:
        return
    if w.stats_faulty:
        return
    victims = in_use_closed_by_other(res)
    for key, out in sorted(res.outcomes.items()):
        if "exc" not in out:
            continue
        tok = out["token"]
        if out["exc"] == "PoolTimeout":
            continue
        if tok in victims:
            wid, by, site = victims[tok]
            w.violate("C08", "connection-closed-under-request-by-other-thread%s" % tag,
                      {"token": tok, "exc": out["exc"], "closed_by": by, "site": site})
        else:
            w.violate("C08", "unprovoked-failure%s:%s.%s" % (
                tag, (out.get("mod") or "?").split(".")[0], out["exc"]),
                {"token": tok, "msg": out.get("msg")})
        return
    for t in res.info.get("thread_exc", []):
        w.violate("C08", "internal-error-escaped%s" % tag, {"thread": t})
        return


def _h2_shared(res):
    """True if two threads had requests to the same HTTP/2 origin in flight at the same
    time (they are then handed the same connection; a thread may fail on it before its
    first network operation)."""
    from .c10 import parse_url

    w = res.world
    led = w.ledger
    h2_eps = {tuple(w.wires[e[3]].endpoint) for e in led.of("origin_proto") if e[5] == "h2"}
    # through a proxy the wire endpoint is the proxy: use the peer label instead
    h2_labels = {e[4] for e in led.of("origin_proto") if e[5] == "h2"}
    spans = []
    end = {}
    for e in led.of("ret", "exc"):
        end.setdefault(e[4], e[0])
    for e in led.of("call"):
        scheme, host, port = parse_url(e[6].decode())
        if (host, port) in h2_eps or ("origin:%s:%d" % (host, port)) in h2_labels:
            spans.append(((host, port), e[3], e[0], end.get(e[4], 10 ** 12)))
    for i, (o1, c1, a1, b1) in enumerate(spans):
        for (o2, c2, a2, b2) in spans[i + 1:]:
            if o1 == o2 and c1 != c2 and a1 < b2 and a2 < b1:
                return True
    return False


class Limit08(oracles.LimitObserver):
    prop = "C08"


class Waiter08(oracles.WaiterObserver):
    prop = "C08"


POLICIES = [{"mode": "ops", "op_p": 0.5}, {"mode": "lines", "p": 0.02},
            {"mode": "lines", "p": 0.1}, {"mode": "lines", "p": 0.3},
            {"mode": "pct", "q": 0.004, "q_op": 0.05}, {"mode": "pct", "q": 0.02, "q_op": 0.2}]
COMMON = {"exec": "threads", "max_callers": 4, "max_ops": 3, "p_pool_timeout": 0.0,
          "policies": POLICIES, "proxies": ["none"] * 8 + ["http", "socks"],
          "resp_opts": {"p_conn_close": 0.1}, "consume_opts": {"p_all": 0.8}}

FAMS = [
    # configurations in which no pooled connection is ever closed while another thread
    # may have been handed it: must be completely clean
    PoolMixFamily("C08", "threads-no-eviction", 600, 24000,
                  {**COMMON, "protos": ["h1"], "max_connections": [None, 10],
                   "max_keepalive": [None], "expiries": [None]},
                  [Limit08, Waiter08], [thread_oracle]),
    # evictions, keep-alive limits, expiry and server-side idle closes
    PoolMixFamily("C08", "threads-eviction", 700, 24000,
                  {**COMMON, "protos": ["h1"], "max_connections": [1, 1, 2, 2, 3],
                   "max_keepalive": [None, 0, 1, 2], "expiries": [None, 0.0, 0.05, 5.0]},
                  [Limit08, Waiter08], [thread_oracle]),
    # HTTP/2 connections shared by threads
    PoolMixFamily("C08", "threads-h2", 350, 16000,
                  {**COMMON, "protos": ["h2", "mix"], "max_connections": [1, 2, 3],
                   "max_keepalive": [None], "expiries": [None],
                   # early-closed streams keep their slot on the wire (KF-C12-2); the
                   # tunnelled HTTP/2 waiter is C07's finding (KF-C07-1)
                   "h2_mcs": [100, 250], "proxies": ["none", "none", "socks"]},
                  [Limit08, Waiter08], [thread_oracle]),
]

register("C08", {
    "level": "exploration",
    "rule": "2..4 real threads under the baton-passing scheduler, 1..3 requests each, same and "
            "different origins, max_connections 1..4/None, keep-alive limits 0..2, expiry, "
            "HTTP/1.1 and shared HTTP/2 connections; pre-emption at every simulated lock / event / "
            "semaphore / network operation and (policies 'lines') at source lines of "
            "httpcore/_sync and _synchronization with probability 0.02 / 0.1 / 0.3; oracles of "
            "C01 (token, exchange order), C04 (limit invariant), C07 (deadlock, serviceable "
            "waiter) and the strict outcome oracle (no fault => no failure; a failure is "
            "attributed through the ledger to the thread that closed the wire); all runs "
            "non-trivial",
    "assumptions": ["pre-emption inside h11/h2/hpack calls is not explored; no-GIL memory "
                    "effects are not modelled"],
}, FAMS)
