"""C08 — the synchronous pool is thread-safe."""
from __future__ import annotations

import copy

from .. import oracles
from ..runner import Family, Unit
from ..scenario import run_scenario
from . import register
from .common import PoolMixFamily, StateSampler, gen_poolmix


def in_use_closed_by_other(res):
    """Tokens whose connection was closed by *another* thread while the request was
    using it (the ledger shows who closed which wire, and when)."""
    w = res.world
    led = w.ledger
    span = {}      # token -> (first seq, last seq, caller)
    for e in led.of("call"):
        span[e[4]] = [e[0], None, e[3]]
    for e in led.of("ret", "exc"):
        if e[4] in span:
            span[e[4]][1] = e[0]
    used = {}      # token -> set of wires
    for e in led.of("op"):
        if e[7] is not None and e[5] is not None and e[5] >= 0:
            used.setdefault(e[7], set()).add(e[5])
    out = {}
    for e in led.of("wire_closing"):
        wid, by = e[3], e[4]
        for tok, ws in used.items():
            if wid in ws and tok in span:
                a, b, caller = span[tok]
                if by != caller and a < e[0] and (b is None or e[0] < b):
                    out[tok] = (wid, by, e[5])
    return out


def thread_oracle(res):
    _thread_oracle(res)
    w = res.world
    pol = w.scn.get("policy") or {}
    mine = [v for v in w.violations if v[0] == "C08"]
    if mine and _h2_shared(res) and pol.get("mode") in ("lines", "pct"):
        # One root cause: the synchronous HTTP/2 connection guards only its socket reads
        # and writes with locks; stream-id allocation, the h2 state machine, the event
        # table and the stream-slot accounting are multi-line critical sections without
        # one.  Under line-level pre-emption of two threads sharing the connection the
        # symptoms are arbitrary (duplicate stream ids -> KeyError / LocalProtocolError,
        # lost events -> hangs, stale state -> unserviced waiters).
        w.violations[:] = [v for v in w.violations if v[0] != "C08"]
        w.violate("C08", "h2-connection-shared-by-threads:line-preemption",
                  {"symptoms": sorted({v[1] for v in mine})})


def _thread_oracle(res):
    w = res.world
    h2_shared = _h2_shared(res)
    tag = ":h2-shared" if h2_shared else ""
    n0 = len(w.violations)
    oracles.token_oracle(res, "C08")
    oracles.exchange_order_oracle(res, "C08")
    if len(w.violations) > n0:
        w.violations[n0:] = [(p, s + tag, d) for (p, s, d) in w.violations[n0:]]
        return
    if res.error == "deadlock":
        from .c12 import blocked_sites

        w.violate("C08", "deadlock%s:%s" % (tag, ",".join(blocked_sites(res))[:150]),
                  {"blocked": res.blocked})
        return
    if res.error:
        return
    if w.stats_faulty:
        return
    victims = in_use_closed_by_other(res)
    for key, out in sorted(res.outcomes.items()):
        if "exc" not in out:
            continue
        tok = out["token"]
        if out["exc"] == "PoolTimeout":
            continue
        if tok in victims:
            wid, by, site = victims[tok]
            w.violate("C08", "connection-closed-under-request-by-other-thread%s" % tag,
                      {"token": tok, "exc": out["exc"], "closed_by": by, "site": site})
        else:
            w.violate("C08", "unprovoked-failure%s:%s.%s" % (
                tag, (out.get("mod") or "?").split(".")[0], out["exc"]),
                {"token": tok, "msg": out.get("msg")})
        return
    for t in res.info.get("thread_exc", []):
        w.violate("C08", "internal-error-escaped%s" % tag, {"thread": t})
        return


def _h2_shared(res):
    """True if two threads had requests to the same HTTP/2 origin in flight at the same
    time (they are then handed the same connection; a thread may fail on it before its
    first network operation)."""
    from .c10 import parse_url

    w = res.world
    led = w.ledger
    h2_eps = {tuple(w.wires[e[3]].endpoint) for e in led.of("origin_proto") if e[5] == "h2"}
    # through a proxy the wire endpoint is the proxy: use the peer label instead
    h2_labels = {e[4] for e in led.of("origin_proto") if e[5] == "h2"}
    spans = []
    end = {}
    for e in led.of("ret", "exc"):
        end.setdefault(e[4], e[0])
    for e in led.of("call"):
        scheme, host, port = parse_url(e[6].decode())
        if (host, port) in h2_eps or ("origin:%s:%d" % (host, port)) in h2_labels:
            spans.append(((host, port), e[3], e[0], end.get(e[4], 10 ** 12)))
    for i, (o1, c1, a1, b1) in enumerate(spans):
        for (o2, c2, a2, b2) in spans[i + 1:]:
            if o1 == o2 and c1 != c2 and a1 < b2 and a2 < b1:
                return True
    return False


class Limit08(oracles.LimitObserver):
    prop = "C08"


class Waiter08(oracles.WaiterObserver):
    prop = "C08"


POLICIES = [{"mode": "ops", "op_p": 0.5}, {"mode": "lines", "p": 0.02},
            {"mode": "lines", "p": 0.1}, {"mode": "lines", "p": 0.3},
            {"mode": "pct", "q": 0.004, "q_op": 0.05}, {"mode": "pct", "q": 0.02, "q_op": 0.2}]
COMMON = {"exec": "threads", "max_callers": 4, "max_ops": 3, "p_pool_timeout": 0.0,
          "policies": POLICIES, "proxies": ["none"] * 8 + ["http", "socks"],
          "resp_opts": {"p_conn_close": 0.1}, "consume_opts": {"p_all": 0.8}}

FAMS = [
    # configurations in which no pooled connection is ever closed while another thread
    # may have been handed it: must be completely clean
    PoolMixFamily("C08", "threads-no-eviction", 600, 24000,
                  {**COMMON, "protos": ["h1"], "max_connections": [None, 10],
                   "max_keepalive": [None], "expiries": [None]},
                  [Limit08, Waiter08], [thread_oracle]),
    # evictions, keep-alive limits, expiry and server-side idle closes
    PoolMixFamily("C08", "threads-eviction", 700, 24000,
                  {**COMMON, "protos": ["h1"], "max_connections": [1, 1, 2, 2, 3],
                   "max_keepalive": [None, 0, 1, 2], "expiries": [None, 0.0, 0.05, 5.0]},
                  [Limit08, Waiter08], [thread_oracle]),
    # HTTP/2 connections shared by threads
    PoolMixFamily("C08", "threads-h2", 350, 16000,
                  {**COMMON, "protos": ["h2", "mix"], "max_connections": [1, 2, 3],
                   "max_keepalive": [None], "expiries": [None],
                   # early-closed streams keep their slot on the wire (KF-C12-2); the
                   # tunnelled HTTP/2 waiter is C07's finding (KF-C07-1)
                   "h2_mcs": [100, 250], "proxies": ["none", "none", "socks"]},
                  [Limit08, Waiter08], [thread_oracle]),
]

class DelaySweepFamily(Family):
    """Systematic single-delay exploration.  A seeded base scenario (small pool, 3-4
    threads, mostly one origin) is run once under the seeded operation-level schedule
    while the source lines each thread executes are recorded; then, for every thread and
    every distinct source line of httpcore/_sync it executes without holding a lock
    (first and last occurrence), the run is repeated with that thread parked at that
    line until no other thread can make progress any more.  Every two-line window of
    unlocked code is thereby stretched to its maximum, deterministically."""

    chunk = 1
    SLICES = 12
    OPTS = {"exec": "threads", "protos": ["h1"], "min_callers": 3, "max_callers": 4,
            "max_ops": 2, "p_pool_timeout": 0.0, "single_origin": True,
            "max_connections": [1, 1, 1, 2], "max_keepalive": [None, None, 0, 1],
            "expiries": [None, None, 5.0], "proxies": ["none"],
            "policies": [{"mode": "delay"}],
            "resp_opts": {"p_conn_close": 0.1, "big": False}, "consume_opts": {"p_all": 0.8}}

    def __init__(self, name, nq, nt):
        self.prop = "C08"
        self.name = name
        self.n_quick, self.n_thorough = nq, nt

    def units(self, tier):
        return (self.n_quick if tier == "quick" else self.n_thorough) * self.SLICES

    def run_scenario(self, scn):
        res = run_scenario(scn, [Limit08(), Waiter08(), StateSampler()])
        thread_oracle(res)
        res.violations = list(res.world.violations)
        return res

    def run_unit(self, seed, index, tier):
        from ..core import sub_seed

        u = Unit()
        bi, sl = divmod(index, self.SLICES)
        bseed = sub_seed(getattr(self, "check_seed", 0), self.name, "base", bi)
        base = gen_poolmix(bseed, "quick", self.OPTS)
        base["net"]["seg"] = "whole" if base["net"]["seg"] in ("byte", "evil") else base["net"]["seg"]
        base["policy"] = {"mode": "delay", "op_p": 0.5}
        dry = self.run_scenario(dict(base, policy={"mode": "delay", "op_p": 0.5, "record": True}))
        if sl == 0:
            u.add_result(dry, base, "C08", nontrivial=True, keep_sample=(bi % 20 == 0))
        rec = dry.info.get("line_record") or []
        first, last = {}, {}
        for name, k, fn, ln, nlocks, *_ in rec:
            if nlocks or not name.startswith("c"):
                continue
            first.setdefault((name, fn, ln), k)
            last[(name, fn, ln)] = k
        points = sorted({(n, k) for (n, _, _), k in first.items()}
                        | {(n, k) for (n, _, _), k in last.items()})
        for name, k in points[sl::self.SLICES]:
            s = copy.deepcopy(base)
            s["policy"] = {"mode": "delay", "op_p": 0.5, "thread": name, "step": k}
            res = self.run_scenario(s)
            u.add_result(res, s, "C08", nontrivial=True)
        return u


class OpcodeSweepFamily(DelaySweepFamily):
    """The same single-delay exploration at bytecode granularity, for the functions through
    which one thread looks at a connection another thread is using (the predicates the
    pool's passes call: has_expired, is_idle, is_available, is_closed, can_handle_request,
    info): the thread is parked before each instruction of theirs (first and last
    occurrence) - whether or not it holds the pool lock - until nobody else can move."""

    SLICES = 12
    PREDICATES = {"has_expired", "is_idle", "is_available", "is_closed", "can_handle_request",
                  "info", "is_connecting", "is_queued"}
    OPTS = dict(DelaySweepFamily.OPTS, expiries=[5.0, 5.0, None, 0.05],
                policies=[{"mode": "delay", "opcodes": True}])

    def run_unit(self, seed, index, tier):
        from ..core import sub_seed

        u = Unit()
        bi, sl = divmod(index, self.SLICES)
        bseed = sub_seed(getattr(self, "check_seed", 0), self.name, "base", bi)
        base = gen_poolmix(bseed, "quick", self.OPTS)
        base["net"]["seg"] = "whole" if base["net"]["seg"] in ("byte", "evil") else base["net"]["seg"]
        pol = {"mode": "delay", "op_p": 0.5, "opcodes": True}
        base["policy"] = dict(pol)
        dry = self.run_scenario(dict(base, policy=dict(pol, record=True)))
        if sl == 0:
            u.add_result(dry, base, "C08", nontrivial=True, keep_sample=(bi % 20 == 0))
        rec = dry.info.get("line_record") or []
        first, last = {}, {}
        for name, k, fn, ln, nlocks, func, lasti in rec:
            if func not in self.PREDICATES or not name.startswith("c"):
                continue
            first.setdefault((name, fn, ln, lasti), k)
            last[(name, fn, ln, lasti)] = k
        points = sorted({(key[0], k) for key, k in first.items()}
                        | {(key[0], k) for key, k in last.items()})
        for name, k in points[sl::self.SLICES]:
            s = copy.deepcopy(base)
            s["policy"] = dict(pol, thread=name, step=k)
            res = self.run_scenario(s)
            u.add_result(res, s, "C08", nontrivial=True)
        return u


FAMS.append(DelaySweepFamily("threads-delay-sweep", 12, 400))
FAMS.append(OpcodeSweepFamily("threads-opcode-sweep", 6, 200))

register("C08", {
    "level": "exploration",
    "rule": "2..4 real threads under the baton-passing scheduler, 1..3 requests each, same and "
            "different origins, max_connections 1..4/None, keep-alive limits 0..2, expiry, "
            "HTTP/1.1 and shared HTTP/2 connections; pre-emption at every simulated lock / event / "
            "semaphore / network operation and (policies 'lines') at source lines of "
            "httpcore/_sync and _synchronization with probability 0.02 / 0.1 / 0.3; oracles of "
            "C01 (token, exchange order), C04 (limit invariant), C07 (deadlock, serviceable "
            "waiter) and the strict outcome oracle (no fault => no failure; a failure is "
            "attributed through the ledger to the thread that closed the wire); all runs "
            "non-trivial; plus PCT-style priority schedules and the systematic delay sweep: "
            "for every thread and every distinct source line of httpcore/_sync it executes "
            "without holding a lock, one run with that thread parked there until nobody else "
            "can progress",
    "assumptions": ["pre-emption inside h11/h2/hpack calls is not explored; no-GIL memory "
                    "effects are not modelled"],
}, FAMS)
