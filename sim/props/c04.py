"""C04 — the connection limit is never exceeded."""
from .. import oracles
from . import register
from .common import PoolMixFamily

OPTS = {"max_connections": [1, 1, 2, 2, 3, 4], "p_srv_idle_close": 0.1, "p_trace": 0.0,
        "p_h2_events": 0.4}

FAMS = [
    PoolMixFamily("C04", "limit-async-clean", 2500, 40000,
                  {"exec": "asyncio", **OPTS}, [oracles.LimitObserver], []),
    PoolMixFamily("C04", "limit-async-faulty", 2500, 40000,
                  {"exec": "asyncio", "faulty": True, "cancels": True,
                   "cancel_kinds": ["scope", "deadline"], **OPTS},
                  [oracles.LimitObserver], []),
    PoolMixFamily("C04", "limit-async-retries", 1500, 25000,
                  {"exec": "asyncio", "faulty": True, **OPTS, "max_connections": [1, 1, 2, 2, 3],
                   "fault_kinds": ["connect_error", "connect_timeout", "tls_error"],
                   "fault_rates": [0.15, 0.3, 0.5], "retries": [1, 2, 3, 5]},
                  [oracles.LimitObserver], []),
    PoolMixFamily("C04", "limit-trio", 1200, 20000,
                  {"exec": "trio", "faulty": True, "cancels": True, **OPTS},
                  [oracles.LimitObserver], []),
    PoolMixFamily("C04", "limit-threads", 800, 15000,
                  {"exec": "threads", "max_callers": 4, "protos": ["h1"], **OPTS},
                  [oracles.LimitObserver], []),
]


def _late():
    # the sweep engine lives with C05/C06; C04 reuses it with its own invariant:
    # every cancellation point of a request whose arrival evicts several expired
    # connections at once
    from .c05 import LimitSweepFamily

    FAMS.append(LimitSweepFamily("C04", "evict-sweep-async", 6, 60))


_late()

register("C04", {
    "level": "exploration",
    "rule": "seeded swarm over concurrent pool workloads with max_connections 1..4, "
            "2-5 callers, 1-3 origins, failures, scope/deadline cancellations, keep-alive "
            "evictions and slow closes, connection retries with back-off under frequent "
            "connect / TLS failures; invariant evaluated after every task step / "
            "scheduler decision; non-trivial = >=2 callers or a fault fired; distinct = "
            "distinct event-log digest; plus the 'evictor' sweep: a request whose arrival "
            "pass evicts 2-3 expired connections at once, cancelled at every suspension point",
    "assumptions": ["ownership of a stream = reachability from pool.connections by a "
                    "generic object-graph walk", "a stream whose close has been initiated, "
                    "or whose connection has been evicted from the pool, is exempt (as the "
                    "property states)"],
}, FAMS)
