"""C12 — HTTP/2 streams are isolated, bounded and cannot wedge each other.
C13 — HTTP/2 flow control is obeyed and never starves a transfer."""
from __future__ import annotations

import hashlib

from .. import gen, oracles
from . import register
from .common import ScenarioFamily, _shrink_plan


def h2_problems(world):
    out = []
    for x in world.wires:
        peer = getattr(x.peer, "inner", None)
        fl = getattr(peer, "ledger", None)
        if fl is not None and fl.problems:
            out.extend((x.id, p) for p in fl.problems)
    return out


class StreamsFamily(ScenarioFamily):
    chunk = 30

    def __init__(self, name, ex, nq, nt):
        super().__init__("C12", name, nq, nt)
        self.ex = ex

    def generate(self, seed, index, tier):
        r = gen.mk_rng(seed, "c12")
        n = r.randint(2, 8 if tier == "thorough" else 6)
        tls = r.random() < 0.7
        scheme, port = ("https", 443) if tls else ("http", 80)
        pool = {"max_connections": 1, "http2": True}
        if not tls:
            pool["http1"] = False
        st = {}
        if r.random() < 0.8:
            st["max_concurrent_streams"] = r.choice([1, 2, 3, 5, 100, 250])
        if r.random() < 0.3:
            st["initial_window_size"] = r.choice([1000, 65535, 200000])
        events = []
        for _ in range(r.choice([0, 1, 1, 2, 3])):
            x = r.random()
            when = r.choice([{"t": r.choice([0.0, 0.001, 0.01, 0.03, 0.1])},
                             {"after_headers": r.randint(1, n)},
                             {"after_headers": r.randint(1, n), "delay": r.choice([0.001, 0.02])}])
            if x < 0.55:
                if r.random() < 0.3:
                    # a SETTINGS frame that says nothing about the stream limit, which
                    # therefore stays what it was
                    events.append({"when": when, "do": "settings", "partial": True,
                                   "settings": {"initial_window_size":
                                                r.choice([1000, 65535, 100000, 200000])}})
                else:
                    events.append({"when": when, "do": "settings",
                                   "partial": r.random() < 0.5,
                                   "settings": {"max_concurrent_streams":
                                                r.choice([1, 1, 2, 3, 10, 100])}})
            elif x < 0.75:
                events.append({"when": when, "do": "rst", "nth": r.randint(0, 3),
                               "code": r.choice([0, 2, 7, 8])})
            else:
                events.append({"when": when, "do": "ping", "gate": r.random() < 0.5})
        ep = {"kind": "origin", "tls": tls,
              "h2": {"settings": st, "events": events,
                     "wu": r.choice(["eager", "eager", "tiny", "late"]),
                     "interleave": r.choice(["random", "random", "seq"])}}
        if tls:
            ep["alpn"] = ["h2", "http/1.1"]
        callers = []
        for ci in range(n):
            tok = f"s{ci}"
            method = r.choice(["GET", "GET", "GET", "POST"])
            plan = gen.gen_resp_plan(r, tok.encode(), method,
                                     {"p_interim": 0.1, "p_conn_close": 0.0, "p_http10": 0.0,
                                      "p_think": 0.6, "framings": ["cl"], "big": False})
            if plan.get("body_len", 0) > 4000:
                _shrink_plan(plan, r.randint(0, 4000))
            consume = r.choice(["all", "all", "all", {"slow": 0.002}, {"chunks": 1}, "close"])
            if consume == "all" and r.random() < 0.3:
                plan["h2_gap"] = r.choice([0.0005, 0.002])
                plan["h2_frame"] = r.choice([100, 1000])
            if consume in ("close", {"chunks": 1}) and method != "HEAD" and \
                    plan.get("framing") != "none" and r.random() < 0.7:
                # the server keeps sending DATA of a stream the caller has abandoned
                _shrink_plan(plan, r.randint(3000, 40000))
                plan["h2_frame"] = r.choice([100, 1000, 4000])
                plan["think"] = r.choice([0.0, 0.001, 0.01])
                plan["h2_gap"] = r.choice([0.0, 0.0005, 0.002])
            op = {"op": "request", "token": tok, "method": method,
                  "url": f"{scheme}://a.test/t/{tok}", "resp": plan,
                  "consume": consume,
                  "timeouts": {"read": 20.0, "write": 20.0, "pool": 60.0, "connect": 5.0}}
            if method == "POST":
                # uploads stay inside the initial window: waiting for flow-control credit
                # is C13's business (and starves on a shared connection, KF-C13-1)
                op["body"] = {"len": r.choice([0, 100, 500])}
            callers.append({"start": r.choice([0.0, 0.0, 0.0, 0.001, 0.01, 0.05]), "ops": [op]})
        scn = {"seed": seed, "exec": self.ex, "pool": pool,
               "net": {"latency": r.choice(["zero", "fixed", "small"]),
                       "seg": r.choice(["whole", "random", "evil", "segment"]),
                       "endpoints": {f"a.test:{port}": ep}},
               "callers": callers, "epilogue": ["close_pool"]}
        if self.ex == "asyncio":
            scn["sched"] = r.choice(["fifo", "shuffle"])
            rc = gen.mk_rng(seed, "c12cancel")
            if rc.random() < 0.3:
                # one caller is cancelled at some suspension point: every other stream
                # must still run to completion
                ci = rc.randrange(n)
                if rc.random() < 0.3:
                    scn["cancel"] = {"caller": f"c{ci}", "kind": "deadline",
                                     "t": rc.choice([0.001, 0.005, 0.02, 0.05, 0.1])}
                else:
                    scn["cancel"] = {"caller": f"c{ci}", "kind": "scope",
                                     "timing": rc.choice(["early", "late"]),
                                     "step": rc.randint(1, 120)}
        else:
            scn["policy"] = {"mode": "ops", "op_p": 0.5}
        return scn

    def post(self, res, scn):
        streams_oracle(res, scn)

    def nontrivial(self, res, scn):
        return True


def blocked_sites(res):
    """Executor-independent names of the sites the callers are blocked at."""
    out = set()
    for b in res.blocked or []:
        x = b[1]
        if isinstance(x, tuple):
            x = x[-1] if len(x) > 1 else x[0]
        if x is None or x == "join":
            continue
        out.add(str(x).replace("__enter__", "__aenter__").replace("handle_request", "handle_async_request"))
    return sorted(out)


def early_closers(scn):
    out = {op["token"].encode() for c in scn["callers"] for op in c["ops"]
           if op.get("consume", "all") in ("close",) or
           (isinstance(op.get("consume"), dict) and "chunks" in op["consume"])}
    c = scn.get("cancel")
    if c is not None:
        # a cancelled caller abandons its stream just like an early close does
        ci = int(c["caller"][1:])
        if ci < len(scn["callers"]):
            out |= {op["token"].encode() for op in scn["callers"][ci]["ops"] if op.get("token")}
    return out


def streams_oracle(res, scn):
    w = res.world
    led = w.ledger
    if res.error == "deadlock":
        sites = blocked_sites(res)
        if any("_receive_remote_settings_change" in s for s in sites):
            # root cause: the reader waits for stream slots inside the read lock
            sig = "deadlock:settings-decrease-blocks-reader"
        else:
            sig = "deadlock:" + ",".join(sites)
        w.violate("C12", sig, {"blocked": res.blocked})
        return
    if res.error:
        return
    oracles.token_oracle(res, "C12")
    if w.violations:
        return
    for wid, p in h2_problems(w):
        if "opened with" in p or "bad stream id" in p:
            # a stream abandoned before it ended (cancelled or closed early) is never
            # reset: its slot is free locally while the server still counts it
            ab = ":after-abandoned-stream" if ("opened with" in p and early_closers(scn)) else ""
            w.violate("C12", "stream-limit-exceeded" + ab, {"wire": wid, "problem": p})
            return
    for e in led.of("h2_srv_error"):
        if e[4] in ("TooManyStreamsError",):
            w.violate("C12", "stream-limit-exceeded:server-enforced", {"msg": e[5]})
            return
    rst_tokens = set()
    for e in led.of("h2_srv_rst"):
        peer = w.wires[e[3]].peer.inner
        rst_tokens.add(peer.tokens.get(e[4]))
    inj = res.info.get("injected") or {}
    torn = w.stats.get("torn_write", 0) > 0 or "_write_outgoing_data" in str(inj.get("site"))
    for key, out in sorted(res.outcomes.items()):
        tok = out["token"]
        if "exc" in out:
            if tok in rst_tokens:
                continue
            msg = out.get("msg") or ""
            if out["exc"] == "WriteError" and torn and scn.get("cancel"):
                # the cancellation interrupted a write: frames were lost or half written
                # and the connection is unusable by design (fix d72a86d); not a wedge
                continue
            if "Max outbound streams" in msg:
                w.violate("C12", "request-beyond-limit-failed" + _beyond_limit_cause(res, tok),
                          {"token": tok, "msg": msg})
                return
            w.violate("C12", "other-stream-failed:%s:%s" % (out["exc"], _trigger(w, scn)),
                      {"token": tok, "msg": msg})
            return


def _beyond_limit_cause(res, tok):
    """Why did h2 refuse a stream the client's own slot accounting had admitted?  The
    signature names the cause that is present in the history, so that a failure none
    of the known causes explains is reported as new."""
    w = res.world
    led = w.ledger
    beyond = {o["token"] for o in res.outcomes.values()
              if "exc" in o and "Max outbound streams" in (o.get("msg") or "")}
    fail = [e[0] for e in led.of("exc") if e[4] in beyond]
    seq_f = min(fail) if fail else len(led.ev)
    started = {e[4] for e in led.of("call") if e[0] < seq_f}
    # (a) another caller that had started before abandoned its stream before it ended
    # (closed early, cancelled or failed for another reason): the client gives the slot
    # back, h2 still counts the stream (KF-C12-2).  The outcome is logged when the close
    # has finished, the slot is released when it starts, hence no order on that event.
    for e in led.ev:
        k = e[2]
        if e[2] in ("cancelled", "exc", "ret") and e[4] in started and e[4] not in beyond:
            if k != "ret" or (len(e) > 7 and e[7] is False):
                return ":after-early-close"
    # (b) the advertised limit changed at least twice: successive SETTINGS frames are
    # applied one at a time with a checkpoint per slot (KF-C12-3)
    vals = [1]     # the client's limit before any SETTINGS frame has arrived
    for e in led.of("h2_srv_settings"):
        if e[0] > seq_f:
            break
        d = dict(e[4])
        if "max_concurrent_streams" in d:
            v = min(d["max_concurrent_streams"], 100)
            if v != vals[-1]:
                vals.append(v)
    if len(vals) >= 3:
        return ""
    return ":unexplained"


def _trigger(w, scn):
    led = w.ledger
    if w.probes.get("h2_settings_decrease_inflight"):
        return "settings-decrease-inflight"
    if led.of("h2_srv_rst"):
        return "rst"
    if w.probes.get("h2_settings_change"):
        return "settings-change"
    return "none"


class FlowFamily(ScenarioFamily):
    chunk = 20

    def __init__(self, name, ex, nq, nt):
        super().__init__("C13", name, nq, nt)
        self.ex = ex

    def generate(self, seed, index, tier):
        r = gen.mk_rng(seed, "c13")
        tls = r.random() < 0.7
        scheme, port = ("https", 443) if tls else ("http", 80)
        pool = {"max_connections": 1, "http2": True}
        if not tls:
            pool["http1"] = False
        win = r.choice([1, 10, 100, 1000, 16384, 65535, 65535, 200000])
        st = {"max_concurrent_streams": 100}
        if win != 65535 or r.random() < 0.3:
            st["initial_window_size"] = win
        if r.random() < 0.4:
            st["max_frame_size"] = r.choice([16384, 20000, 65536])
        events = []
        if r.random() < 0.3:
            events.append({"when": r.choice([{"t": r.choice([0.001, 0.01, 0.05])},
                                             {"after_data": r.choice([1, 1000, 50000])}]),
                           "do": "settings",
                           "settings": {"initial_window_size": r.choice([1, 100, 1000, 65535, 300000])}})
        if r.random() < 0.35:
            # later SETTINGS frames that move MAX_FRAME_SIZE (up, and down again) and the
            # window, at instants at which uploads are parked waiting for credit
            for _ in range(r.choice([1, 2, 2, 3])):
                s = {}
                if r.random() < 0.8:
                    s["max_frame_size"] = r.choice([16384, 16384, 20000, 65536, 100000])
                if not s or r.random() < 0.4:
                    s["initial_window_size"] = r.choice([1000, 65535, 300000])
                events.append({"when": r.choice([{"t": r.choice([0.001, 0.01, 0.05, 0.3])},
                                                 {"after_data": r.choice([1, 1000, 20000, 50000,
                                                                          100000])}]),
                               "do": "settings", "settings": s, "partial": r.random() < 0.5})
        ep = {"kind": "origin", "tls": tls,
              "h2": {"settings": st, "events": events,
                     "wu": r.choice(["eager", "tiny", "late", "stream_first", "conn_first",
                                     "batched", "thrifty", "thrifty"]),
                     "wu_step": r.choice([1, 7, 100, 5000]),
                     "wu_delay": r.choice([0.01, 0.2, 0.5]),
                     "wu_batch": r.choice([1000, 20000, 60000]),
                     "interleave": r.choice(["random", "seq"])}}
        if ep["h2"]["wu"] == "thrifty":
            # a server that counts its credit to the byte does not move the window size
            # under the upload as well (its arithmetic would run ahead of the SETTINGS ACK)
            for e in events:
                e["settings"].pop("initial_window_size", None)
            events[:] = [e for e in events if e["settings"]]
        if tls:
            ep["alpn"] = ["h2", "http/1.1"]
        n_up = r.choice([1, 1, 2, 3])
        cap = 4 * max(win, 2000) if win < 65535 else (4 * 65535 if tier == "thorough" else 2 * 65535)
        cap = min(cap, 300000)
        callers = []
        for ci in range(n_up):
            tok = f"u{ci}"
            nb = r.choice([0, 1, win, win + 1, r.randint(0, cap), r.randint(0, cap)])
            nb = max(0, min(nb, cap))
            if win <= 10:
                nb = min(nb, 400)
            low = min([win] + [e["settings"].get("initial_window_size", win) for e in events
                               if e["do"] == "settings"])
            if low <= 100:
                # one frame per byte of window: keep the upload short
                nb = min(nb, 400 if low <= 10 else 3000)
            body = {"len": nb}
            if r.random() < 0.6:
                body = {"len": nb, "chunks": gen.gen_chunks(r, nb), "oneshot": r.random() < 0.5}
            plan = gen.gen_resp_plan(r, tok.encode(), "POST",
                                     {"p_interim": 0.0, "p_conn_close": 0.0, "p_http10": 0.0,
                                      "p_think": 0.3, "framings": ["cl"], "body_len": r.choice([0, 10, 500])})
            if r.random() < 0.25:
                # the server answers (response head) before it has received the body
                plan["h2_early_head"] = True
            op = {"op": "request", "token": tok, "method": "POST",
                  "url": f"{scheme}://a.test/t/{tok}", "resp": plan, "body": body,
                  "timeouts": {"read": 30.0, "write": 30.0, "pool": 60.0, "connect": 5.0}}
            callers.append({"start": r.choice([0.0, 0.0, 0.001, 0.02]), "ops": [op]})
        if r.random() < 0.5:
            # a concurrent download holding the read lock while the uploads wait for credit
            tok = "d0"
            nd = r.choice([100, 5000, 70000, 200000 if tier == "thorough" else 70000])
            plan = gen.gen_resp_plan(r, tok.encode(), "GET",
                                     {"p_interim": 0.0, "p_conn_close": 0.0, "p_http10": 0.0,
                                      "framings": ["cl"], "body_len": nd})
            plan["think"] = r.choice([0.0, 0.05, 0.3])
            plan["h2_frame"] = r.choice([0, 100, 16384])
            plan["h2_pad"] = r.choice([0, 0, 17, 255])
            callers.append({"start": 0.0, "ops": [
                {"op": "request", "token": tok, "url": f"{scheme}://a.test/t/{tok}", "resp": plan,
                 "consume": r.choice(["all", {"slow": 0.01}, {"chunks": r.randint(1, 3)},
                                      {"chunks": r.randint(1, 3)}]),
                 "timeouts": {"read": 30.0, "write": 30.0, "pool": 60.0, "connect": 5.0}}]})
        scn = {"seed": seed, "exec": self.ex, "pool": pool,
               "net": {"latency": r.choice(["zero", "fixed", "small"]),
                       "seg": r.choice(["whole", "random", "segment"]),
                       "endpoints": {f"a.test:{port}": ep}},
               "callers": callers, "epilogue": ["observe", "close_pool"], "step_cap": 400000}
        if self.ex == "asyncio":
            scn["sched"] = r.choice(["fifo", "shuffle"])
        else:
            scn["policy"] = {"mode": "ops", "op_p": 0.5}
        return scn

    def observers(self, scn):
        return [CreditObserver()]

    def post(self, res, scn):
        flow_oracle(res, scn)

    def nontrivial(self, res, scn):
        return True


class CreditObserver:
    """'The client returns flow-control credit for every DATA frame it consumes': once
    every response has been read completely, the connection-level receive window of the
    client's h2 state machine must be fully re-credited (current window + bytes processed
    but not yet announced == maximum window).  Reads h2 internals through guarded
    getattr: if they are missing the check is skipped and counted."""

    def setup(self, world, pool):
        self.w = world
        self.pool = pool
        self.bad = None
        self.pending = None

    def observe(self, where):
        seen = set()
        stack = list(self.pool.connections)
        while stack:
            o = stack.pop()
            if id(o) in seen:
                continue
            seen.add(id(o))
            st = getattr(o, "_h2_state", None)
            if st is not None:
                wm = getattr(st, "_inbound_flow_control_window_manager", None)
                cur = getattr(wm, "current_window_size", None)
                mx = getattr(wm, "max_window_size", None)
                proc = getattr(wm, "_bytes_processed", None)
                if None in (cur, mx, proc):
                    self.w.probes["credit_check_skipped_h2_internals_missing"] += 1
                    continue
                self.w.probes["credit_check_done"] += 1
                self.pending = (self.pending or 0) + proc
                if cur + proc != mx:
                    self.bad = {"current": cur, "processed": proc, "max": mx,
                                "missing": mx - cur - proc}
                continue
            d = getattr(o, "__dict__", None)
            if d and (type(o).__module__ or "").startswith("httpcore"):
                stack.extend(v for v in d.values() if hasattr(v, "__dict__") and not isinstance(v, type))

    def post(self, res):
        res.info["credit"] = self.bad
        res.info["credit_pending"] = self.pending


class BigDownloadFamily(ScenarioFamily):
    """A response body beyond the client's 16 MiB + 65535 bytes of credit: it can only
    complete if the client returns flow-control credit for the DATA it consumes."""

    chunk = 1

    def __init__(self, name, nq, nt):
        super().__init__("C13", name, nq, nt)

    def generate(self, seed, index, tier):
        r = gen.mk_rng(seed, "c13big")
        n = 2 ** 24 + 65535 + r.choice([1, 1000, 200000])
        tok = "big0"
        plan = {"status": 200, "reason": b"OK", "framing": "cl", "body_len": n,
                "headers": [[b"content-length", b"%d" % n], [b"x-echo-token", tok.encode()]],
                "header_lines": [], "h2_frame": r.choice([0, 16384])}
        if index % 4 == 3 and tier == "thorough":
            # padded DATA: padding and the pad-length byte count against the windows, so
            # 70000 one-byte frames with 255 bytes of padding use 17.9 MB of credit
            n = 70000
            plan.update(body_len=n, h2_frame=1, h2_pad=255,
                        headers=[[b"content-length", b"%d" % n], [b"x-echo-token", tok.encode()]])
        callers = [{"ops": [{"op": "request", "token": tok, "url": "https://a.test/t/big0",
                             "resp": plan, "timeouts": {"read": 30.0, "write": 30.0}}]}]
        if r.random() < 0.5:
            p2 = {"status": 200, "reason": b"OK", "framing": "cl", "body_len": 100000,
                  "headers": [[b"content-length", b"100000"], [b"x-echo-token", b"side0"]],
                  "header_lines": []}
            callers.append({"start": 0.001, "ops": [
                {"op": "request", "token": "side0", "url": "https://a.test/t/side0", "resp": p2,
                 "timeouts": {"read": 30.0, "write": 30.0}}]})
        return {"seed": seed, "exec": "asyncio", "pool": {"max_connections": 1, "http2": True},
                "net": {"latency": r.choice(["zero", "fixed"]), "seg": "whole",
                        "endpoints": {"a.test:443": {"kind": "origin", "tls": True,
                                                     "alpn": ["h2", "http/1.1"],
                                                     "h2": {"settings": {"max_concurrent_streams": 10,
                                                                         "max_frame_size": 65536},
                                                            "interleave": "seq"}}}},
                "callers": callers, "epilogue": ["close_pool"], "step_cap": 2000000}

    def post(self, res, scn):
        flow_oracle(res, scn)
        res.world.probes["download_beyond_client_credit"] += 1

    def nontrivial(self, res, scn):
        return True


def flow_oracle(res, scn):
    w = res.world
    led = w.ledger
    multi = len(scn["callers"]) > 1
    if res.error == "deadlock":
        sites = blocked_sites(res)
        w.violate("C13", "transfer-starved:%s" % ("shared" if multi else "alone"),
                  {"blocked": res.blocked, "sites": sites})
        return
    if res.error:
        return
    for wid, p in h2_problems(w):
        if "flow control" in p or "max_frame_size" in p:
            w.violate("C13", "flow-control-violated:" + p.split(" exceeded")[0].split(" of ")[0][:40]
                      .replace(" ", "-"), {"wire": wid, "problem": p})
            return
    for e in led.of("h2_srv_error"):
        if e[4] in ("FlowControlError", "FrameTooLargeError", "FrameDataMissingError"):
            w.violate("C13", "flow-control-violated:server-enforced:" + e[4], {"msg": e[5]})
            return
    reqs = {e[6]: e for e in led.of("h2_req")}
    for key, out in sorted(res.outcomes.items()):
        tok = out["token"]
        call = w.calls[tok]
        if out.get("exc") == "ReadTimeout" and not w.fault_sites:
            # nothing was injected: the transfer waited for a frame that had already been
            # consumed, i.e. it starved (same root cause as the deadlock form)
            w.violate("C13", "transfer-starved:%s" % ("shared" if multi else "alone"),
                      {"token": tok, "msg": out.get("msg")})
            return
        if "exc" in out:
            w.violate("C13", "transfer-failed:%s:%s" % (out["exc"], "shared" if multi else "alone"),
                      {"token": tok, "msg": out.get("msg")})
            return
        e = reqs.get(tok)
        body = call["body"]
        if e is None or (e[8], e[9]) != (len(body), hashlib.sha256(body).hexdigest()[:16]):
            w.violate("C13", "upload-body-altered", {"token": tok, "got": e and e[8], "want": len(body)})
            return
    oracles.token_oracle(res, "C13")
    bad = res.info.get("credit")
    if bad and not w.violations and not res.error and not w.stats_faulty and \
            all(o.get("complete") for o in res.outcomes.values()):
        w.violate("C13", "credit-not-returned-for-consumed-data", bad)
        return
    # also when responses were read only in part: the credit the client has returned
    # (announced to the server, or processed and waiting to be announced) covers at least
    # every body byte that was handed to a caller
    pend = res.info.get("credit_pending")
    if pend is not None and not w.violations and not res.error and not w.stats_faulty \
            and len(w.wires) == 1:
        peer = getattr(w.wires[0].peer, "inner", None)
        conn = getattr(peer, "c", None)
        if conn is not None and hasattr(peer, "fc_sent"):
            announced = conn.outbound_flow_control_window - 65535 + peer.fc_sent - 2 ** 24
            delivered = sum(len(o.get("body") or b"") for o in res.outcomes.values()
                            if oracles.is_h2(o))
            if announced + pend < delivered:
                w.violate("C13", "credit-not-returned-for-consumed-data:partial-read",
                          {"announced": announced, "pending": pend, "delivered": delivered,
                           "sent": peer.fc_sent})


register("C12", {
    "level": "exploration",
    "rule": "2..8 concurrent requests multiplexed on one HTTP/2 connection; server interleaves "
            "HEADERS/DATA of different streams in PRNG order, frames cut anywhere (also inside "
            "the 9-byte header), SETTINGS(MAX_CONCURRENT_STREAMS) changes up and down - also "
            "below the number in flight - at PRNG instants, RST_STREAM of single streams, PING; "
            "callers read fully, slowly or close early; asyncio fifo+shuffle and threads; oracle = "
            "per-stream equality, stream count against the acknowledged limit (h2 server + "
            "independent frame ledger), deadlock and livelock detector, unaffected streams "
            "complete - also when one caller is cancelled at a random suspension point (30% of "
            "the asyncio runs)",
    "assumptions": ["MAX_CONCURRENT_STREAMS=0 is not generated (a request would legitimately "
                    "wait for ever)"],
}, [StreamsFamily("streams-async", "asyncio", 2500, 50000),
    StreamsFamily("streams-threads", "threads", 400, 8000)])

register("C13", {
    "level": "exploration",
    "rule": "uploads of 0..4x the window with server INITIAL_WINDOW_SIZE from 1 to 200000, "
            "MAX_FRAME_SIZE 16k..64k, a mid-transfer SETTINGS change of the window, every "
            "WINDOW_UPDATE policy (eager, tiny increments, stream-first, connection-first, late, "
            "batched), 1..3 uploads sharing the connection window, optionally a concurrent "
            "download holding the read lock; oracle = server-side window accounting (h2 + "
            "independent), exact upload bodies, deadlock and livelock detector, no time-out "
            "without a fault; a quarter of the uploads get their response head before the "
            "request body has been received; downloads read completely, slowly or only in "
            "part: the credit returned covers at least every body byte handed to a caller",
    "assumptions": ["a few response bodies beyond the client's 16 MiB + 65535 credit per run "
                    "(big-download family); uploads are bounded to a few multiples of the window"],
}, [FlowFamily("flow-async", "asyncio", 4000, 60000),
    FlowFamily("flow-threads", "threads", 500, 8000),
    BigDownloadFamily("big-download-async", 8, 64)])
