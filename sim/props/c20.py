"""C20 — connection retries are bounded and limited to establishment."""
from __future__ import annotations

import itertools

from .. import gen
from ..runner import Unit
from ..scenario import run_scenario
from . import register
from .common import ScenarioFamily

RETRYABLE_TCP = ["ce_tcp", "ct_tcp"]
RETRYABLE_TLS = ["ce_tls", "ct_tls"]
BACKOFF = [0, 0.5, 1.0, 2.0, 4.0, 8.0, 16.0]
EXC_OF = {"ce_tcp": "ConnectError", "ct_tcp": "ConnectTimeout", "ce_tls": "ConnectError",
          "ct_tls": "ConnectTimeout", "other_tcp": "ReadError", "other_tls": "ReadError"}


def sequences(n, tls):
    """All outcome sequences of length <= n+2 that end at the first terminal outcome."""
    retry = RETRYABLE_TCP + (RETRYABLE_TLS if tls else [])
    term = ["ok", "other_tcp"] + (["other_tls"] if tls else [])
    out = []
    for k in range(0, n + 2):
        for pre in itertools.product(retry, repeat=k):
            for t in term:
                out.append(list(pre) + [t])
    for pre in itertools.product(retry, repeat=n + 2):
        out.append(list(pre))
    return out


def all_cases():
    cases = []
    for n in range(0, 5):
        for tls in (False, True):
            for seq in sequences(n, tls):
                cases.append((n, tls, seq))
    return cases


_CASES = None


def cases():
    global _CASES
    if _CASES is None:
        _CASES = all_cases()
    return _CASES


def build(seed, n, tls, seq, uds, post_fail, latency):
    scheme = "https" if tls else "http"
    port = 443 if tls else 80
    ep = {"kind": "origin", "tls": tls, "alpn": ["http/1.1"]}
    eps = {f"a.test:{port}": ep}
    pool = {"retries": n, "max_connections": 2}
    if uds:
        pool["uds"] = "/tmp/sim.sock"
        eps["unix:/tmp/sim.sock"] = ep
    plan = {"status": 200, "reason": b"OK", "framing": "cl", "body_len": 5,
            "headers": [[b"Content-Length", b"5"]], "header_lines": [b"Content-Length: 5"]}
    op = {"op": "request", "token": "t0", "url": f"{scheme}://a.test/t/t0", "resp": plan,
          "timeouts": {"connect": 3.0, "read": 3.0, "write": 3.0}}
    scn = {"seed": seed, "exec": "asyncio", "pool": pool,
           "net": {"latency": latency, "endpoints": eps, "connect_script": seq},
           "callers": [{"ops": [op]}], "epilogue": ["close_pool"],
           "c20": {"n": n, "tls": tls, "seq": seq, "uds": uds, "post_fail": post_fail}}
    if post_fail:
        scn["net"]["post_fail"] = post_fail
    return scn


def oracle(res, scn):
    w = res.world
    c = scn["c20"]
    n, seq = c["n"], c["seq"]
    attempts = [e for e in w.ledger.of("attempt")]
    # expected
    exp_attempts = 0
    final = None
    for i, oc in enumerate(seq):
        exp_attempts += 1
        final = oc
        if oc in ("ok", "other_tcp", "other_tls"):
            break
        if i >= n:
            break
    else:
        pass
    if final not in ("ok", "other_tcp", "other_tls") and exp_attempts <= n and exp_attempts == len(seq):
        # script exhausted with retries left: the next attempt succeeds
        exp_attempts += 1
        final = "ok"
    out = res.outcomes.get(("c0", 0), {})
    sig = None
    if len(attempts) != exp_attempts:
        sig = "attempts:%s" % ("more" if len(attempts) > exp_attempts else "fewer")
    else:
        sleeps = list(w.sleeps)
        exp_sleeps = BACKOFF[: max(0, exp_attempts - 1)]
        if [float(x) for x in sleeps] != [float(x) for x in exp_sleeps]:
            sig = "backoff-sequence"
        else:
            # the clock really advanced by each pause between consecutive attempts
            for i in range(1, len(attempts)):
                if attempts[i][1] - attempts[i - 1][1] + 1e-9 < exp_sleeps[i - 1]:
                    sig = "pause-not-observed"
    if sig is None:
        if final == "ok":
            pf = c.get("post_fail")
            if pf:
                # the request may fail or (write error, response still readable) succeed;
                # what matters is that no further connection attempt was made (checked
                # above) and that a read failure is reported
                if pf == "read_error" and out.get("exc") is None:
                    sig = "post-establishment-read-failure-swallowed"
            elif out.get("exc") is not None or out.get("status") != 200:
                sig = "request-failed-after-successful-connect:%s" % out.get("exc")
        else:
            if out.get("exc") != EXC_OF[final]:
                sig = "wrong-final-exception:%s-for-%s" % (out.get("exc"), final)
    if sig is None:
        # every failed TLS attempt's socket was closed
        for x in w.wires:
            if x.state != "closed":
                sig = "stream-left-open"
    if sig is not None:
        w.violate("C20", sig, {"n": n, "seq": seq, "attempts": len(attempts),
                               "expected": exp_attempts, "sleeps": list(w.sleeps),
                               "out": {k: v for k, v in out.items() if k != "body"}})


class RetryFamily(ScenarioFamily):
    chunk = 200

    def units(self, tier):
        return 4000 if tier == "quick" else len(cases()) * 2

    def case_for(self, seed, index, tier):
        r = gen.mk_rng(seed, "c20")
        cs = cases()
        if tier == "quick":
            n, tls, seq = cs[r.randrange(len(cs))]
            uds = r.random() < 0.3
            post = r.choice([None, None, "read_error", "write_error"])
        else:
            n, tls, seq = cs[index // 2]
            uds = bool(index % 2)
            post = [None, "read_error", "write_error"][(index // 2) % 3]
        lat = r.choice(["zero", "fixed", "small"])
        return n, tls, seq, uds, post, lat

    def generate(self, seed, index, tier):
        n, tls, seq, uds, post, lat = self.case_for(seed, index, tier)
        scn = build(seed, n, tls, seq, uds, post, lat)
        if post:
            # fail the first read or write after establishment: op indices depend on the
            # number of attempts, so use a rate of 1 on that kind for one firing
            scn["net"]["fault_once"] = post
        return scn

    def post(self, res, scn):
        oracle(res, scn)

    def nontrivial(self, res, scn):
        return len(scn["c20"]["seq"]) > 1 or scn["c20"]["seq"][0] != "ok"

    def run_unit(self, seed, index, tier):
        u = super().run_unit(seed, index, tier)
        if tier == "thorough":
            u.exhaustive = True
        return u


register("C20", {
    "level": "fault_enumeration",
    "rule": "outcome sequences over {ok, ConnectError/ConnectTimeout at the TCP or TLS stage, "
            "other exception at either stage} of length <= N+2 for retries N in 0..4, direct TCP "
            "and Unix socket, with and without a failure after establishment; thorough "
            "enumerates the whole space (exhaustive), quick samples it; non-trivial = at least "
            "one failed attempt; distinct = distinct event-log digest",
    "assumptions": ["'other' is modelled as a ReadError raised by connect/start_tls"],
}, [RetryFamily("C20", "retry-sequences", 4000, 0)])
