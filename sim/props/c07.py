"""C07 — waiting requests make progress whenever capacity exists."""
from .. import oracles
from . import register
from .common import PoolMixFamily

OPTS = {"max_connections": [1, 1, 1, 2, 2, 3], "p_pool_timeout": 0.3,
        "p_srv_idle_close": 0.1, "max_callers": 6}


def _posts(res):
    oracles.deadlock_oracle(res, "C07")
    oracles.termination_oracle(res, "C07")


FAMS = [
    PoolMixFamily("C07", "progress-async-clean", 1800, 40000,
                  {"exec": "asyncio", **OPTS}, [oracles.WaiterObserver], [_posts]),
    PoolMixFamily("C07", "progress-async-cancels", 1800, 40000,
                  {"exec": "asyncio", "faulty": True, "cancels": True,
                   "cancel_kinds": ["scope", "deadline"], "retries": [0, 0, 1, 3], **OPTS},
                  [oracles.WaiterObserver], [_posts]),
    # cancellations with no fault and hence mostly no time-outs: a connection left
    # unusable by a cancelled request shows as a caller blocked forever
    PoolMixFamily("C07", "progress-async-cancels-only", 1500, 30000,
                  {"exec": "asyncio", "cancels": True,
                   "cancel_kinds": ["scope", "deadline"], **OPTS},
                  [oracles.WaiterObserver], [_posts]),
    # graceful HTTP/2 shutdowns (GOAWAY) while responses are held open at a small stream
    # limit: later requests must go to another connection, not park on the old one
    PoolMixFamily("C07", "progress-async-goaway", 1200, 25000,
                  {"exec": "asyncio", "protos": ["h2"], "proxies": ["none"] * 4 + ["http", "socks"],
                   "p_h2_events": 1.0, "h2_mcs": [1, 1, 1, 2], "max_connections": [2, 2, 3, 4],
                   "p_pool_timeout": 0.1, "max_callers": 5,
                   "consume_opts": {"p_all": 0.5, "p_hold": 0.5}},
                  [oracles.WaiterObserver, oracles.TerminatedAssignObserver], [_posts]),
    PoolMixFamily("C07", "progress-trio", 1200, 20000,
                  {"exec": "trio", "cancels": True, **OPTS}, [], [_posts]),
    PoolMixFamily("C07", "progress-threads", 600, 15000,
                  {"exec": "threads", **OPTS, "max_callers": 4, "protos": ["h1"]},
                  [oracles.WaiterObserver], [_posts]),
]

register("C07", {
    "level": "exploration",
    "rule": "seeded swarm over 2-6 concurrent callers, max_connections 1..3, 1-3 origins, "
            "pool time-outs, cancellations while queued, HTTP/1.1-after-HTTP/2-capable "
            "re-queues, HTTP/2 shutdowns (GOAWAY) while responses are held open at a stream "
            "limit of 1-2; liveness judged only at quiescence (deadlock detector, "
            "serviceable-waiter invariant, no request parked on a connection that had already "
            "been told GOAWAY when it was handed over, termination); non-trivial = >=2 callers "
            "or a fault fired",
    "assumptions": ["every caller script closes what it opens and every server answers, so "
                    "no legitimate infinite wait exists", "reads pool._requests (guarded) to "
                    "identify queued requests",
                    "observes PoolRequest.assign_to_connection from outside (guarded)"],
}, FAMS)
