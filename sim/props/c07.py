"""C07 — waiting requests make progress whenever capacity exists."""
from .. import oracles
from . import register
from .common import PoolMixFamily

OPTS = {"max_connections": [1, 1, 1, 2, 2, 3], "p_pool_timeout": 0.3,
        "p_srv_idle_close": 0.1, "max_callers": 6}


def _posts(res):
    oracles.deadlock_oracle(res, "C07")
    oracles.termination_oracle(res, "C07")


FAMS = [
    PoolMixFamily("C07", "progress-async-clean", 1800, 40000,
                  {"exec": "asyncio", **OPTS}, [oracles.WaiterObserver], [_posts]),
    PoolMixFamily("C07", "progress-async-cancels", 1800, 40000,
                  {"exec": "asyncio", "faulty": True, "cancels": True,
                   "cancel_kinds": ["scope", "deadline"], "retries": [0, 0, 1, 3], **OPTS},
                  [oracles.WaiterObserver], [_posts]),
    # cancellations with no fault and hence mostly no time-outs: a connection left
    # unusable by a cancelled request shows as a caller blocked forever
    PoolMixFamily("C07", "progress-async-cancels-only", 1500, 30000,
                  {"exec": "asyncio", "cancels": True,
                   "cancel_kinds": ["scope", "deadline"], **OPTS},
                  [oracles.WaiterObserver], [_posts]),
    # graceful HTTP/2 shutdowns (GOAWAY) while responses are held open at a small stream
    # limit: later requests must go to another connection, not park on the old one
    PoolMixFamily("C07", "progress-async-goaway", 1200, 25000,
                  {"exec": "asyncio", "protos": ["h2"], "proxies": ["none"] * 4 + ["http", "socks"],
                   "p_h2_events": 1.0, "h2_mcs": [1, 1, 1, 2], "max_connections": [2, 2, 3, 4],
                   "p_pool_timeout": 0.1, "max_callers": 5,
                   "consume_opts": {"p_all": 0.5, "p_hold": 0.5}},
                  [oracles.WaiterObserver, oracles.TerminatedAssignObserver], [_posts]),
    PoolMixFamily("C07", "progress-trio", 1200, 20000,
                  {"exec": "trio", "cancels": True, **OPTS}, [], [_posts]),
    PoolMixFamily("C07", "progress-threads", 600, 15000,
                  {"exec": "threads", **OPTS, "max_callers": 4, "protos": ["h1"]},
                  [oracles.WaiterObserver], [_posts]),
]

def _late():
    # the sweep engine of C05 with C07's oracles: one caller is cancelled at every
    # suspension point (scope and deadline style) while another request waits in the
    # queue behind it at max_connections=1 - with no pool time-out, so that a waiter the
    # pool forgets shows as a caller blocked for ever
    from .c05 import SweepFamily, base_index, base_scenario

    class WaiterSweep(SweepFamily):
        def make_base(self, bseed, bi):
            cts = ["h1", "h1tls", "h2tls", "h2pk", "fwd", "tun_h1", "tun_h2", "socks_h1",
                   "socks_auth_h2", "uds_h1"]
            ct = cts[(bi // 2) % len(cts)]
            comp = ["behind", "queued"][bi % 2]
            b = base_scenario(bseed, base_index(ct, comp), self.ex)
            b["pool"]["max_connections"] = 1
            b["pool"].pop("keepalive_expiry", None)
            for c in b["callers"]:
                for op in c["ops"]:
                    op.pop("timeouts", None)
            # a follower that arrives when everything above is over (or stuck): whatever
            # the cancellation left behind, its request to the other origin must be served
            from .. import gen

            r = gen.mk_rng(bseed, "c07follower")
            scheme = b["callers"][0]["ops"][0]["url"].split("://", 1)[0]
            b["callers"].append({"start": r.choice([0.2, 1.0, 3.0]), "ops": [{
                "op": "request", "token": "f0", "method": "GET", "url": f"{scheme}://b.test/t/f0",
                "resp": gen.gen_resp_plan(r, b"f0", "GET", {"body_len": 20, "p_interim": 0.0,
                                                           "p_conn_close": 0.0, "p_http10": 0.0,
                                                           "framings": ["cl"]}),
                "consume": "all"}]})
            b["epilogue"] = ["settle", "close_pool"]
            b.pop("probe_reuse", None)
            return b

        def observers(self, scn):
            return [oracles.WaiterObserver()]

        def run_scenario(self, scn):
            from ..scenario import run_scenario

            res = run_scenario(scn, self.observers(scn))
            _posts(res)
            res.violations = list(res.world.violations)
            return res

    FAMS.append(WaiterSweep("C07", "cancel-sweep-async", 20, 200, kinds=("scope",), faults=False))


_late()

register("C07", {
    "level": "exploration",
    "rule": "seeded swarm over 2-6 concurrent callers, max_connections 1..3, 1-3 origins, "
            "pool time-outs, cancellations while queued, HTTP/1.1-after-HTTP/2-capable "
            "re-queues, HTTP/2 shutdowns (GOAWAY) while responses are held open at a stream "
            "limit of 1-2; liveness judged only at quiescence (deadlock detector, "
            "serviceable-waiter invariant, no request parked on a connection that had already "
            "been told GOAWAY when it was handed over, termination); non-trivial = >=2 callers "
            "or a fault fired; plus a sweep: one caller cancelled at every suspension point "
            "while another request waits behind it at max_connections=1 without time-outs",
    "assumptions": ["every caller script closes what it opens and every server answers, so "
                    "no legitimate infinite wait exists", "reads pool._requests (guarded) to "
                    "identify queued requests",
                    "observes PoolRequest.assign_to_connection from outside (guarded)"],
}, FAMS)
