"""C02 — responses are delivered byte-exact, independent of network segmentation;
truncation is an error."""
from __future__ import annotations

import copy

from .. import gen, oracles
from ..peers.h1 import serialise_response
from ..runner import Family, Unit
from ..scenario import run_scenario
from . import register

SEGS = ["whole", "random", "segment", "evil", "byte"]


def base(seed, index, tier):
    r = gen.mk_rng(seed, "c02")
    h2 = r.random() < 0.35
    method = r.choice(["GET"] * 6 + ["HEAD", "POST"])
    seg = SEGS[index % len(SEGS)]
    big = tier == "thorough" and seg in ("whole", "segment", "random") and r.random() < 0.3
    plan = gen.gen_resp_plan(r, b"t0", method, {
        "big": big, "p_interim": 0.35, "p_cut": 0.6, "p_http10": 0.08, "p_conn_close": 0.15,
        "framings": ["cl", "cl", "chunked", "chunked", "close"]})
    if seg == "byte" and plan.get("body_len", 0) > 3000:
        from .common import _shrink_plan
        _shrink_plan(plan, r.randint(0, 3000))
    if h2:
        plan.pop("http10", None)
        plan["h2_pad"] = r.choice([0, 0, 1, 17])
        if r.random() < 0.2:
            plan["h2_empty_data"] = True
    tls = h2 or r.random() < 0.3
    ep = {"kind": "origin", "tls": tls}
    if tls:
        ep["alpn"] = ["h2", "http/1.1"] if h2 else ["http/1.1"]
    if h2:
        ep["h2"] = {"settings": {"max_concurrent_streams": 100},
                    "interleave": r.choice(["random", "seq"])}
    op = {"op": "request", "token": "t0", "method": method,
          "url": f"{'https' if tls else 'http'}://a.test/t/t0", "resp": plan,
          "consume": "all"}
    if method == "POST":
        op["body"] = {"len": r.randint(0, 500)}
    return {"seed": seed, "exec": "asyncio", "pool": {"http2": h2},
            "net": {"latency": r.choice(["zero", "small", "fixed"]), "seg": seg,
                    "endpoints": {f"a.test:{443 if tls else 80}": ep}},
            "callers": [{"ops": [op]}], "epilogue": ["close_pool"], "c02": {"h2": h2}}


def exact_oracle(res, scn):
    w = res.world
    out = res.outcomes.get(("c0", 0), {})
    op = scn["callers"][0]["ops"][0]
    plan = op["resp"]
    h2 = scn["c02"]["h2"]
    pre = "h2" if h2 else "h1"
    trunc = plan.get("trunc")
    if trunc is None:
        if "exc" in out:
            w.violate("C02", f"{pre}:well-formed-response-rejected:{out['exc']}",
                      {"msg": out.get("msg"), "plan": _brief(plan)})
            return
        oracles.token_oracle(res, "C02")
        if res.world.violations:
            return
        ext = out.get("ext", {})
        if h2:
            if ext.get("http_version") != b"HTTP/2":
                w.violate("C02", "h2:http_version", {"ext": ext})
        else:
            ver = b"HTTP/1.0" if plan.get("http10") else b"HTTP/1.1"
            if ext.get("http_version") != ver:
                w.violate("C02", "h1:http_version", {"ext": ext, "expected": ver})
            elif ext.get("reason_phrase") != plan["reason"]:
                w.violate("C02", "h1:reason_phrase", {"ext": ext, "expected": plan["reason"]})
        if out.get("status") in plan.get("interim", ()) and out["status"] != plan["status"]:
            w.violate("C02", f"{pre}:interim-returned-as-final", {"status": out["status"]})
        return
    # truncated: a framed body must never complete normally
    framing = plan.get("framing")
    if "exc" in out:
        return
    if framing == "close" and not h2:
        # EOF is the terminator of a close-delimited body; only a cut inside the head
        # must fail
        if trunc < scn["c02"]["head_len"]:
            w.violate("C02", f"{pre}:truncated-head-accepted", {"trunc": trunc})
        elif plan.get("trunc_kind") == "reset" and out.get("complete"):
            # a connection reset is not a terminator: it must surface as an error
            w.violate("C02", f"{pre}:reset-close-delimited-body-completed-normally",
                      {"trunc": trunc, "got_len": len(out.get("body", b""))})
        return
    if out.get("complete"):
        w.violate("C02", f"{pre}:truncated-{framing}-body-completed-normally",
                  {"trunc": trunc, "total": scn["c02"].get("total"),
                   "got_len": len(out.get("body", b"")), "kind": plan.get("trunc_kind")})


def _brief(plan):
    return {k: v for k, v in plan.items() if k not in ("header_lines",)}


class ExactFamily(Family):
    chunk = 4

    def __init__(self, n_quick, n_thorough):
        self.prop = "C02"
        self.name = "exact-async"
        self.n_quick, self.n_thorough = n_quick, n_thorough

    def units(self, tier):
        return self.n_quick if tier == "quick" else self.n_thorough

    def run_scenario(self, scn):
        res = run_scenario(scn, [])
        exact_oracle(res, scn)
        res.violations = list(res.world.violations)
        return res

    def run_unit(self, seed, index, tier):
        u = Unit()
        r = gen.mk_rng(seed, "c02trunc")
        scn = base(seed, index, tier)
        res = self.run_scenario(scn)
        u.add_result(res, scn, "C02", nontrivial=True, keep_sample=(index % 40 == 0))
        plan = scn["callers"][0]["ops"][0]["resp"]
        h2 = scn["c02"]["h2"]
        if h2:
            total = plan.get("body_len", 0)
            head_len = 0
            if total == 0:
                return u
            kinds = ["eof", "rst", "goaway", "reset"]
        else:
            raw, _ = serialise_response(plan, b"t0")
            total = len(raw)
            body_len = plan.get("body_len", 0) if plan.get("framing") in ("cl", "close") else 0
            head_len = total - body_len if plan.get("framing") in ("cl", "close") else total
            kinds = ["eof", "reset"]
        if total <= (512 if tier == "thorough" else 160):
            js = list(range(0, total))
            u.extra["truncation_sweeps_complete"] = 1
        else:
            js = sorted({r.randrange(total) for _ in range(8)} | {0, total - 1, max(0, total - 2)})
        for i, j in enumerate(js):
            s = copy.deepcopy(scn)
            p = s["callers"][0]["ops"][0]["resp"]
            p["trunc"] = j
            p["trunc_kind"] = kinds[(i + index) % len(kinds)]
            p["trunc_code"] = [0, 2, 8, 5][(i // 4) % 4]
            s["c02"]["head_len"] = head_len
            s["c02"]["total"] = total
            res = self.run_scenario(s)
            u.add_result(res, s, "C02", nontrivial=True)
        return u


def _mux_post(res):
    if res.error:
        return
    oracles.token_oracle(res, "C02")


def _multiplexed():
    from .common import PoolMixFamily

    return PoolMixFamily("C02", "multiplexed-async", 1200, 24000,
                         {"exec": "asyncio", "protos": ["h2", "h2", "h2", "mix", "h1"],
                          "proxies": ["none"] * 5 + ["http"], "single_origin": True,
                          "max_connections": [1, 2, None], "max_keepalive": [None],
                          "expiries": [None], "consume_opts": {"p_all": 1.0},
                          "h2_mcs": [2, 3, 10, 100], "max_callers": 5, "min_callers": 2},
                         [], [_mux_post])


register("C02", {
    "level": "exploration",
    "rule": "one generated well-formed response per unit (any status, header list with mixed "
            "case / duplicates / optional whitespace, Content-Length / chunked / close-delimited / "
            "HTTP/1.0 / bodiless framing, interim 1xx, HTTP/2 DATA sizes and padding) delivered "
            "under each segmentation mode (whole, random cuts, server segments, cuts inside CRLF "
            "and frame headers, one byte per read); plus a truncation sweep (every byte offset "
            "for small responses, sampled offsets otherwise; EOF / RST / GOAWAY / reset); all runs "
            "count as non-trivial; distinct = distinct event-log digest",
    "assumptions": ["the segmentation and truncation sweeps are single-caller; the "
                    "multiplexed family judges equality of status, headers and body only",
                    "a close-delimited body cut short by EOF cannot be told from a complete one "
                    "and is not judged; one cut short by a reset must fail"],
}, [ExactFamily(600, 12000),
    # the same exactness for responses that share a connection: 2-5 callers on multiplexed
    # HTTP/2 connections (frames of several streams in one read, every segmentation mode)
    # and on pooled HTTP/1.1 connections, all bodies read to the end, no faults
    _multiplexed()])
