"""Registry: property id -> families, plus the per-property metadata that goes into
the evidence."""
from __future__ import annotations

import importlib

META = {}
_FAMS = {}
_MODULES = ["c01", "c02", "c03", "c04", "c05", "c07", "c08", "c09", "c10", "c11", "c12", "c14", "c15", "c16", "c17", "c18", "c20"]
_loaded = False


def register(prop, meta, fams):
    META[prop] = meta
    _FAMS[prop] = fams


def _load():
    global _loaded
    if _loaded:
        return
    _loaded = True
    for m in _MODULES:
        importlib.import_module(f"{__name__}.{m}")


def families(prop):
    _load()
    return _FAMS[prop]


def family_by_name(prop, name):
    for f in families(prop):
        if f.name == name:
            return f
    raise KeyError((prop, name))


def all_props():
    _load()
    return sorted(_FAMS)
