"""C09 — keep-alive reuse, limits and expiry."""
from __future__ import annotations

from .. import gen
from . import register
from .common import ScenarioFamily

TOL = 1e-6


class KeepAliveFamily(ScenarioFamily):
    chunk = 40

    def __init__(self, name, ex, nq, nt):
        super().__init__("C09", name, nq, nt)
        self.ex = ex

    def generate(self, seed, index, tier):
        r = gen.mk_rng(seed, "c09")
        h2 = r.random() < 0.3
        tls = h2 or r.random() < 0.2
        scheme, port = ("https", 443) if tls else ("http", 80)
        n_orig = r.choice([1, 2, 2, 3, 4])
        hosts = [f"h{i}.test" for i in range(n_orig)]
        expiry = r.choice([None, None, 0.0, 0.05, 0.05, 5.0])
        pool = {"max_connections": r.choice([1, 2, 3, None]),
                "max_keepalive_connections": r.choice([0, 1, 1, 2, 3, None]),
                "keepalive_expiry": expiry}
        if h2:
            pool["http2"] = True
        eps = {}
        for h in hosts:
            cfg = {"kind": "origin", "tls": tls}
            if tls:
                cfg["alpn"] = ["h2", "http/1.1"] if h2 else ["http/1.1"]
            if r.random() < 0.3:
                cfg["keepalive_timeout"] = r.choice([0.02, 0.05, 0.2])
                if gen.mk_rng(seed, "c09-408/" + h).random() < 0.4:
                    cfg["idle_408"] = True
            eps[f"{h}:{port}"] = cfg
        ops = []
        n = r.randint(3, 10 if tier == "quick" else 16)
        for i in range(n):
            tok = f"k{i}"
            host = r.choice(hosts)
            plan = gen.gen_resp_plan(r, tok.encode(), "GET",
                                     {"p_interim": 0.05, "p_conn_close": 0.1, "p_http10": 0.03,
                                      "p_think": 0.1, "framings": ["cl", "cl", "chunked", "close"]})
            if plan.get("body_len", 0) > 2000:
                from .common import _shrink_plan
                _shrink_plan(plan, r.randint(0, 2000))
            ops.append({"op": "request", "token": tok, "url": f"{scheme}://{host}/t/{tok}",
                        "resp": plan,
                        "consume": r.choice(["all", "all", "all", {"chunks": 1}, "close"])})
            x = r.random()
            if x < 0.35:
                # land before, at and after the deadlines
                d = r.choice([0.0, 0.01, 0.049, 0.05, 0.051, 0.1, 0.3, 6.0]) if expiry else \
                    r.choice([0.0, 0.01, 0.05, 0.3])
                ops.append({"op": "sleep", "d": d})
            elif x < 0.45:
                ops.append({"op": "server_close",
                            "endpoint": f"{r.choice(hosts)}:{port}"})
                if r.random() < 0.5:
                    ops.append({"op": "sleep", "d": r.choice([0.0, 0.001, 0.01])})
        rpx = gen.mk_rng(seed, "c09proxy")
        if rpx.random() < 0.3:
            # the same histories through a proxy: forwarding (http), tunnelling (https, and
            # ws: a CONNECT tunnel that stays in clear) or SOCKS5
            if rpx.random() < 0.6:
                eps["px.test:8080"] = {"kind": "http_proxy"}
                pool["proxy"] = {"url": "http://px.test:8080"}
                if not tls and rpx.random() < 0.5:
                    for op in ops:
                        if op.get("op") == "request":
                            op["url"] = "ws" + op["url"][4:]
            else:
                eps["sk.test:1080"] = {"kind": "socks", "auth": None}
                pool["proxy"] = {"url": "socks5://sk.test:1080"}
        scn = {"seed": seed, "exec": self.ex, "pool": pool,
               "net": {"latency": r.choice(["zero", "fixed", "small"]),
                       "seg": r.choice(["whole", "random"]), "endpoints": eps},
               "callers": [{"ops": ops}], "epilogue": ["close_pool"],
               "tick": r.choice([0.0, 1e-9])}
        if self.ex == "threads":
            scn["policy"] = {"mode": "ops", "op_p": 0.5}
        return scn

    def post(self, res, scn):
        keepalive_oracle(res, scn)

    def nontrivial(self, res, scn):
        return True


def hang_oracle(res):
    """A keep-alive history against well-behaved servers never hangs (dead- or livelock):
    a request that spins between a connection that refuses it and a pool that keeps
    handing it out never gets the reuse the property promises."""
    if res.error == "deadlock":
        from .c12 import blocked_sites

        res.world.violate("C09", "history-hangs:" + ",".join(blocked_sites(res))[:120],
                          {"blocked": res.blocked})
        return True
    return False


def keepalive_oracle(res, scn):
    w = res.world
    if hang_oracle(res):
        return
    pool = scn["pool"]
    expiry = pool.get("keepalive_expiry")
    maxc = pool.get("max_connections")
    maxk = pool.get("max_keepalive_connections")
    lim_idle = min(x for x in (maxc if maxc is not None else 10 ** 9,
                               maxk if maxk is not None else 10 ** 9))
    wires = {}       # id -> dict(endpoint, state: idle|busy|closing|closed, t_idle, srv_closed)
    cur = None       # token in flight
    cur_wire = None
    picked = None    # (wire, eligible?) for the current call
    eligible_at_call = []
    call_origin = None
    pool_closing = False
    call_t = None
    sent_on_idle = False

    def origin_of(url):
        u = url.decode()
        scheme, rest = u.split("://", 1)
        host = rest.split("/", 1)[0]
        return (host, 443 if scheme == "https" else 80)

    def is_eligible(x, now):
        if x["state"] != "idle":
            return None
        if x["srv_closed"] is not None and x["srv_closed"] <= now + TOL and not x["h2"]:
            return False if x["srv_closed"] <= now - TOL or True else None
        if expiry is not None:
            exp = x["t_idle"] + expiry
            if now > exp + TOL:
                return False
            if abs(now - exp) <= TOL:
                return None  # the exact instant: either behaviour
        return True

    for e in w.ledger.ev:
        k, now = e[2], e[1]
        if k == "wire_open":
            wires[e[3]] = {"endpoint": tuple(e[4]), "state": "busy", "t_idle": None,
                           "srv_closed": None, "h2": False, "nreq": 0,
                           # the origin a proxied connection was made for (its endpoint is
                           # the proxy's): that of the first request sent on it
                           "origin": None}
        elif k == "origin_proto":
            wires[e[3]]["h2"] = e[5] == "h2"
        elif k in ("srv_idle_close", "srv_forced_close"):
            if e[3] in wires:
                # server timers are evaluated lazily: the FIN was deliverable from the
                # timer's own instant
                wires[e[3]]["srv_closed"] = e[4] if len(e) > 4 else now
                if cur_wire == e[3] and sent_on_idle and not wires[e[3]]["h2"] and \
                        wires[e[3]]["srv_closed"] <= call_t - TOL:
                    # the server's close only shows in the ledger now (its timers run when
                    # the wire is touched), but it had reached the client before the call
                    # began: the idle socket was readable when the connection was chosen
                    w.violate("C09", "request-sent-on-server-closed-connection",
                              {"token": cur, "wire": e[3], "closed_at": wires[e[3]]["srv_closed"],
                               "call_at": call_t})
                    return
                if call_t is not None:
                    eligible_at_call = [(i, is_eligible(x, call_t)) for i, x in wires.items()
                                        if (x["origin"] or x["endpoint"]) == call_origin and x["state"] == "idle"]
        elif k == "call":
            cur = e[4]
            call_t = now
            call_origin = origin_of(e[6])
            cur_wire = None
            eligible_at_call = [(i, is_eligible(x, now)) for i, x in wires.items()
                                if (x["origin"] or x["endpoint"]) == call_origin and x["state"] == "idle"]
            # (K) idle connections never outnumber the keep-alive limit once an operation
            # has completed
            idle = [i for i, x in wires.items() if x["state"] == "idle"]
            if len(idle) > lim_idle:
                w.violate("C09", "idle-connections-exceed-keepalive-limit",
                          {"idle": idle, "limit": lim_idle})
                return
        elif k == "op" and e[4] == "connect" and cur is not None and e[7] == cur:
            if any(ok is True for _, ok in eligible_at_call):
                w.violate("C09", "new-connection-despite-reusable-idle-one",
                          {"token": cur, "eligible": eligible_at_call})
                return
        elif k == "op" and e[4] == "send" and cur is not None and e[7] == cur and e[5] in wires:
            x = wires[e[5]]
            e = (e[0], e[1], e[2], e[5])
            if cur_wire is None:
                cur_wire = e[3]
                sent_on_idle = x["state"] == "idle"
                if x["origin"] is None:
                    x["origin"] = call_origin
                if x["state"] == "idle":
                    ok = dict(eligible_at_call).get(e[3], True)
                    if ok is False:
                        why = "server-closed" if (x["srv_closed"] is not None and not x["h2"]) \
                            else "expired"
                        w.violate("C09", "request-sent-on-%s-connection" % why,
                                  {"token": cur, "wire": e[3], "t_idle": x["t_idle"], "now": now})
                        return
                x["state"] = "busy"
                x["nreq"] += 1
        elif k in ("ret", "exc"):
            if cur_wire is not None and wires[cur_wire]["state"] == "busy":
                # a connection on which a request failed is not a reusable idle one
                wires[cur_wire]["state"] = "idle" if k == "ret" else "broken"
                wires[cur_wire]["t_idle"] = now
            cur = None
            cur_wire = None
        elif k == "callers_done":
            pool_closing = True
            idle = [i for i, x in wires.items() if x["state"] == "idle"]
            if len(idle) > lim_idle:
                w.violate("C09", "idle-connections-exceed-keepalive-limit",
                          {"idle": idle, "limit": lim_idle})
                return
        elif k == "wire_closing":
            x = wires.get(e[3])
            if x is None:
                continue
            was_idle = x["state"] == "idle"
            x["state"] = "closing"
            if not was_idle or pool_closing:
                continue
            # (O) every close of an idle wire needs a permitted reason
            reasons = []
            if expiry is not None and now >= x["t_idle"] + expiry - TOL:
                reasons.append("expired")
            if x["srv_closed"] is not None and x["srv_closed"] <= now + TOL:
                reasons.append("server-closed")
            # the connection of the exchange that is just finishing turns idle before the
            # pool's clean-up pass runs (its `ret` event is logged afterwards)
            n_idle = 1 + sum(1 for y in wires.values() if y["state"] in ("idle", "busy", "broken"))
            if n_idle > lim_idle:
                reasons.append("surplus")
            n_pooled = 1 + sum(1 for y in wires.values() if y["state"] in ("idle", "busy", "broken"))
            if maxc is not None and n_pooled >= maxc and cur is not None and \
                    not any(ok is not False for _, ok in eligible_at_call):
                reasons.append("room")
            if not reasons:
                w.violate("C09", "idle-connection-closed-without-permitted-reason",
                          {"wire": e[3], "by": e[4], "site": e[5], "idle": n_idle,
                           "limit": lim_idle, "t_idle": x["t_idle"], "now": now})
                return
        elif k == "wire_closed":
            if e[3] in wires:
                wires[e[3]]["state"] = "closed"
    w.probes["c09_histories"] += 1


class NoReasonFamily(ScenarioFamily):
    """Concurrent callers under a configuration in which the only permitted reason for
    closing a pooled connection is keep-alive expiry (no keep-alive limit, connection
    limit never reached, servers keep connections open, every response is read
    completely, no fault, no cancellation): before the pool is closed a connection may
    only be closed once it has been idle - no request of any caller on it - for at least
    keepalive_expiry; with no expiry configured it may not be closed at all."""

    chunk = 30

    def __init__(self, name, ex, nq, nt):
        super().__init__("C09", name, nq, nt)
        self.ex = ex

    def generate(self, seed, index, tier):
        from .common import gen_poolmix

        o = {"exec": self.ex, "protos": ["h1", "h1", "h2", "mix"], "max_connections": [None, 100],
             "max_keepalive": [None], "expiries": [None, None, 0.05, 0.5, 5.0],
             "proxies": ["none"] * 4 + ["http", "socks"],
             "min_callers": 2, "max_callers": 5, "max_ops": 4, "p_pool_timeout": 0.0,
             "resp_opts": {"p_conn_close": 0.0, "p_http10": 0.0, "framings": ["cl", "cl", "chunked"],
                           "big": False},
             "consume_opts": {"p_all": 2.0}, "big": False,
             "policies": [{"mode": "ops", "op_p": 0.5}, {"mode": "lines", "p": 0.05},
                          {"mode": "pct", "q": 0.004, "q_op": 0.05}]}
        if self.ex == "threads":
            o["protos"] = ["h1"]
            # with threads the decision to close an expired connection and the close
            # itself can lie arbitrarily far apart (pre-emption outside the pool lock):
            # only the no-expiry form of the rule applies
            o["expiries"] = [None]
        scn = gen_poolmix(seed, tier, o)
        scn["c09"] = {"mode": "no-reason"}
        return scn

    def post(self, res, scn):
        w = res.world
        if hang_oracle(res) or res.error:
            return
        led = w.ledger
        closed_pool = led.of("pool_closed")
        t_end = closed_pool[0][0] if closed_pool else 10 ** 12
        callers_done = next((e for e in led.of("callers_done")), None)
        expiry = scn["pool"].get("keepalive_expiry")
        # a connection cannot have become idle before the last byte moved on it: the instant
        # of the last data movement bounds the idle period from above (a necessary
        # condition for a legitimate expiry, so never a false alarm)
        moved = {}
        for e in led.of("wire_open", "s2c", "c2s"):
            moved.setdefault(e[3], []).append(e[1])
        for e in led.of("wire_closing"):
            if callers_done is None or e[0] > callers_done[0]:
                break
            wid, now = e[3], e[1]
            last = max([t for t in moved.get(wid, ()) if t <= now] or [None],
                       key=lambda x: -1 if x is None else x)
            ok = expiry is not None and last is not None and now - last >= expiry - 1e-9
            if not ok:
                w.violate("C09", "connection-closed-without-permitted-reason:concurrent%s" % (
                    "" if expiry is None else ":before-expiry"),
                    {"wire": wid, "by": e[4], "site": e[5], "t": now, "last_data": last,
                     "expiry": expiry})
                return
        for key, out in sorted(res.outcomes.items()):
            if "exc" in out:
                w.violate("C09", "request-failed:%s:concurrent" % out["exc"], {"msg": out.get("msg")})
                return

    def nontrivial(self, res, scn):
        return True


register("C09", {
    "level": "exploration",
    "rule": "single-caller histories of 3..16 requests (full read / partial read / early close) "
            "over 1..4 origins interleaved with clock advances landing before, at and after the "
            "keep-alive deadline and with server-side closes of idle connections (forced and by "
            "server keep-alive time-out), for every combination of max_connections in "
            "{1,2,3,None}, max_keepalive_connections in {0,1,2,3,None}, keepalive_expiry in "
            "{None,0,0.05,5}, HTTP/1.1 and HTTP/2, both clock-tick modes; all runs non-trivial; "
            "distinct = event-log digest; plus 2-5 concurrent callers (asyncio shuffle, threads "
            "with line pre-emption) under a configuration in which the only permitted reason "
            "for closing is keep-alive expiry: a connection closed before the pool is must "
            "have seen no byte move for keepalive_expiry (asyncio; with threads and with no "
            "expiry configured: no close at all), and no request may fail",
    "assumptions": ["the oracle is a set of constraints (reuse, idle bound, no use after expiry "
                    "or server close, every idle close has a permitted reason), not a replica of "
                    "the eviction policy; at the exact expiry instant either behaviour is accepted"],
}, [KeepAliveFamily("keepalive-async", "asyncio", 3000, 60000),
    KeepAliveFamily("keepalive-threads", "threads", 800, 15000),
    NoReasonFamily("no-reason-no-close-async", "asyncio", 2500, 40000),
    NoReasonFamily("no-reason-no-close-threads", "threads", 400, 8000)])
