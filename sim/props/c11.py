"""C11 — proxy hops see exactly what is meant for them."""
from __future__ import annotations

import base64

from .. import gen
from . import register
from .common import ScenarioFamily
from .c10 import DEFAULT, bare, parse_url

KINDS = ["http", "http", "https", "socks5", "socks5h"]


class ProxyFamily(ScenarioFamily):
    chunk = 40

    def __init__(self, name, ex, nq, nt):
        super().__init__("C11", name, nq, nt)
        self.ex = ex

    def generate(self, seed, index, tier):
        r = gen.mk_rng(seed, "c11")
        kind = KINDS[index % len(KINDS)]
        eps = {}
        hosts = r.sample(["a.test", "b.test", "10.0.0.1", "[::1]"], 2)
        for h in hosts:
            for port in (80, 8080, 443, 8443):
                tls = port in (443, 8443)
                eps[f"{bare(h)}:{port}"] = {"kind": "origin", "tls": tls, "alpn": ["http/1.1"]}
        auth = ["user", "p:ss"] if r.random() < 0.5 else None
        px = {}
        c11 = {"kind": kind, "auth": auth, "proxy_headers": []}
        if kind in ("http", "https"):
            key = "px.test:3128" if kind == "http" else "spx.test:3129"
            cfg = {"kind": "http_proxy", "tls": kind == "https"}
            # CONNECT reply plan
            x = r.random()
            if x < 0.55:
                st = 200
            elif x < 0.65:
                st = r.choice([204, 299, 201])
            else:
                st = r.choice([101, 301, 302, 400, 403, 407, 500, 502, 503])
            plan = {"status": st, "reason": r.choice([b"Connection established", b"Nope", b"OK",
                                                      b"Authentification n\xe9cessaire",
                                                      b"\xff\xfe"]),
                    "framing": "none", "headers": [], "header_lines": []}
            if st >= 300 and r.random() < 0.5:
                n = r.randint(0, 200)
                plan.update(framing="cl", body_len=n, headers=[[b"Content-Length", b"%d" % n]],
                            header_lines=[b"Content-Length: %d" % n])
            if r.random() < 0.2:
                plan["interim"] = r.choice([[100], [103], [102, 103]])
            cfg["connect_plan"] = plan
            c11["connect_status"] = st
            eps[key] = cfg
            px["url"] = f"{kind}://{key}"
            ph = []
            if r.random() < 0.7:
                ph.append(["X-Proxy-Custom", r.choice(["1", "two words"])])
            if r.random() < 0.5:
                ph.append([r.choice(["User-Agent", "user-agent", "USER-AGENT"]), "proxy-agent"])
            if r.random() < 0.3:
                ph.append(["X-Proxy-Custom", "dup"])
            px["headers"] = ph
            c11["proxy_headers"] = ph
        else:
            cfg = {"kind": "socks", "auth": auth}
            x = r.random()
            if x < 0.15:
                cfg["method_reply"] = r.choice([0xFF, 1, 2 if auth is None else 0])
            elif x < 0.25 and auth:
                cfg["auth_status"] = r.choice([1, 2, 255])
            elif x < 0.45:
                cfg["reply_code"] = r.choice([1, 2, 3, 4, 5, 6, 7, 8])
            c11["socks_cfg"] = dict(cfg)
            eps["sk.test:1080"] = cfg
            px["url"] = f"{kind}://sk.test:1080"
        if auth:
            px["auth"] = auth
        if r.random() < 0.3:
            px["style"] = "legacy"
        ops = []
        companions = []
        rc = gen.mk_rng(seed, "c11conc")
        n_first = r.randint(1, 3)
        n_comp = rc.choice([0, 0, 0, 2, 2, 3]) if self.ex == "asyncio" else 0
        for i in range(n_first + n_comp):
            if i >= n_first:
                r = rc
            scheme = r.choice(["http", "https"])
            host = r.choice(hosts)
            port = r.choice([DEFAULT[scheme], DEFAULT[scheme], 8080 if scheme == "http" else 8443])
            explicit = port != DEFAULT[scheme] or r.random() < 0.3
            authy = f"{host}:{port}" if explicit else host
            tok = f"p{i}"
            method = r.choice(["GET", "GET", "POST", "PUT"])
            hdrs = gen.gen_headers(r, 3)
            hdrs = [[k.decode(), v.decode()] for k, v in hdrs]
            if r.random() < 0.5:
                hdrs.append([r.choice(["User-Agent", "user-agent"]), "caller-agent"])
            plan = gen.gen_resp_plan(r, tok.encode(), method,
                                     {"body_len": r.choice([0, 10, 300]), "p_interim": 0.0,
                                      "p_conn_close": 0.1, "p_http10": 0.0, "p_think": 0.0,
                                      "framings": ["cl", "chunked"]})
            op = {"op": "request", "token": tok, "method": method,
                  "url": f"{scheme}://{authy}/t/{tok}?q={i}", "headers": hdrs, "resp": plan,
                  "timeouts": {"connect": 5.0, "read": 5.0, "write": 5.0, "pool": 5.0}}
            if method != "GET":
                op["body"] = gen.gen_req_body(r) or {"len": r.randint(1, 500)}
            if r.random() < 0.15:
                # the 'target' request extension overrides the URL's target (origin side)
                op["target"] = f"/t/{tok}/via-target-extension?y={i}".encode()
            if i >= n_first:
                companions.append(op)
            else:
                ops.append(op)
        r = gen.mk_rng(seed, "c11tail")
        scn = {"seed": seed, "exec": self.ex,
               "pool": {"max_connections": r.choice([1, 2, 10]), "proxy": px},
               "net": {"latency": r.choice(["zero", "fixed", "small"]),
                       "seg": r.choice(["whole", "whole", "random", "segment"]),
                       "endpoints": eps},
               "callers": [{"ops": ops}], "epilogue": ["close_pool"], "c11": c11}
        if companions:
            # concurrent callers that start together once the first caller is under way or
            # done: several requests handed one idle connection, re-queues, retries
            start = rc.choice([0.02, 0.1, 0.5, 2.0])
            for k, op in enumerate(companions):
                if k < 2 or rc.random() < 0.5:
                    # same origin as the first caller's first request
                    op["url"] = ops[0]["url"].replace("/t/p0?", "/t/p%d?" % (n_first + k))
            for op in companions:
                scn["callers"].append({"start": start, "ops": [op]})
        if self.ex == "threads":
            scn["policy"] = {"mode": "ops", "op_p": 0.5}
        return scn

    def post(self, res, scn):
        proxy_oracle(res, scn)

    def nontrivial(self, res, scn):
        return True


def lower_names(hs):
    return [bytes(k).lower() for k, v in hs]


def expected_request_headers(call):
    """What pool.stream() sends: Host first when absent, then the caller's list, then
    Content-Length / Transfer-Encoding when there is content and neither was given."""
    op = call["op"]
    hs = [(bytes(k), bytes(v)) for k, v in call["headers"]]
    names = {k.lower() for k, v in hs}
    scheme, host, port = parse_url(op["url"])
    explicit = _explicit_port(op["url"])
    if b"host" not in names:
        hb = (("[%s]" % host) if ":" in host else host).encode()
        hv = hb if port == DEFAULT[scheme] else b"%s:%d" % (hb, port)
        hs = [(b"Host", hv)] + hs
    body = op.get("body")
    if body is not None and b"content-length" not in names and b"transfer-encoding" not in names:
        if body.get("chunks") is None:
            hs = hs + [(b"Content-Length", b"%d" % len(call["body"]))]
        else:
            hs = hs + [(b"Transfer-Encoding", b"chunked")]
    return hs


def host_first(hs):
    """Host is allowed to lead (h11 writes it first)."""
    return [h for h in hs if h[0].lower() == b"host"] + [h for h in hs if h[0].lower() != b"host"]


def _explicit_port(url):
    auth = url.split("://", 1)[1].split("/", 1)[0]
    if auth.startswith("["):
        return "]:" in auth
    return ":" in auth


def proxy_oracle(res, scn):
    w = res.world
    c = scn["c11"]
    kind = c["kind"]
    led = w.ledger
    ph = [(k.encode(), v.encode()) for k, v in c.get("proxy_headers", [])]
    if c.get("auth") and kind in ("http", "https"):
        cred = base64.b64encode(("%s:%s" % tuple(c["auth"])).encode())
        ph = [(b"Proxy-Authorization", b"Basic " + cred)] + ph
    ph_names = {k.lower() for k, v in ph}
    if kind in ("socks5", "socks5h"):
        return socks_oracle(res, scn)
    proxy_heads = [e for e in led.of("srv_head") if e[4].startswith("proxy:")]
    origin_heads = [e for e in led.of("srv_head") if e[4].startswith("origin:")]
    tunnel_wires = {e[3] for e in led.of("proxy_tunnel_up")}
    for e in proxy_heads:
        wid, tok, method, target, headers = e[3], e[6], e[7], e[8], list(e[9])
        if method == b"CONNECT":
            # which request is this CONNECT for: the caller's current token
            op_ev = next((x for x in led.of("c2s") if x[3] == wid), None)
            call = w.calls.get(op_ev[6]) if op_ev is not None else None
            if call is None:
                continue
            scheme, host, port = parse_url(call["op"]["url"])
            v6 = ":" in host
            want = b"%s:%d" % ((("[%s]" % host) if v6 else host).encode(), port)
            if target != want:
                w.violate("C11", "connect-target-wrong" + (":ipv6-literal" if v6 else ""),
                          {"target": target, "want": want})
                if not v6:
                    return
            hd = dict((k.lower(), v) for k, v in headers)
            if hd.get(b"host") != want and not (v6 and hd.get(b"host") == target):
                w.violate("C11", "connect-host-header-wrong" + (":ipv6-literal" if v6 else ""),
                          {"host": hd.get(b"host"), "want": want})
                return
            for k, v in ph:
                if (k, v) not in headers and k.lower() not in (b"host", b"accept"):
                    w.violate("C11", "proxy-header-missing-on-connect", {"missing": (k, v), "headers": headers})
                    return
            caller_names = {bytes(k).lower() for k, v in call["headers"]} - ph_names - {b"host", b"accept"}
            leaked = [k for k, v in headers if k.lower() in caller_names]
            if leaked:
                w.violate("C11", "caller-header-in-connect", {"leaked": leaked})
                return
            req = next((x for x in led.of("srv_req") if x[3] == wid and x[5] == e[5]), None)
            if req is not None and req[10] != 0:
                w.violate("C11", "body-bytes-in-connect", {"len": req[10]})
                return
        else:
            # forwarded request
            call = w.calls.get(tok)
            if call is None:
                w.violate("C11", "forwarded-request-without-token", {"target": target})
                return
            url = call["op"]["url"].encode()
            if call["op"].get("target") is not None:
                scheme_, rest_ = call["op"]["url"].split("://", 1)
                url = (scheme_ + "://" + rest_.split("/", 1)[0]).encode() + bytes(call["op"]["target"])
            if target != url:
                w.violate("C11", "forward-target-not-the-absolute-url%s" % (
                    ":ipv6-literal" if b"[" in url else ""), {"target": target, "want": url})
                if b"[" not in url:
                    return
            req_h = expected_request_headers(call)
            if b"[" in url:
                # the synthesised Host of an IPv6 literal is bracketless for the same
                # root cause (KF-C11-2): compare the other headers
                req_h = [h for h in req_h if h[0].lower() != b"host"]
                headers = [h for h in headers if h[0].lower() != b"host"]
            over = {k.lower() for k, v in req_h}
            want_h = [(k, v) for k, v in ph if k.lower() not in over] + req_h
            if host_first(headers) != host_first(want_h):
                # Host synthesised for an IPv6 literal loses its brackets (C19 territory)
                w.violate("C11", "forward-headers-not-merged-as-documented%s" % (
                    ":ipv6-literal" if b"[" in url else ""), {"got": headers, "want": want_h})
                return
    # inside the tunnel: no proxy credentials, no proxy headers
    for e in origin_heads:
        if e[3] in tunnel_wires:
            names = lower_names(e[9])
            bad = [n for n in names if n in (ph_names - {b"user-agent"}) or n == b"proxy-authorization"]
            if bad:
                w.violate("C11", "proxy-header-inside-tunnel", {"leaked": bad})
                return
    # CONNECT refusals
    st = c.get("connect_status")
    for key, out in sorted(res.outcomes.items()):
        call = w.calls[out["token"]]
        scheme = parse_url(call["op"]["url"])[0]
        if scheme == "http":
            if "exc" in out:
                w.violate("C11", "forwarded-request-failed:%s" % out["exc"], {"msg": out.get("msg")})
                return
            continue
        if 200 <= st < 300:
            if "exc" in out:
                w.violate("C11", "tunnelled-request-failed:%s" % out["exc"], {"msg": out.get("msg")})
                return
        else:
            if st == 101 and out.get("exc") == "RemoteProtocolError":
                continue  # 101 without an upgrade proposal is malformed HTTP
            if out.get("exc") != "ProxyError":
                w.violate("C11", "connect-refusal-not-proxyerror:%s" % (out.get("exc") or out.get("status")),
                          {"status": st, "msg": out.get("msg")})
                return
    if not (200 <= (st or 200) < 300):
        # nothing further is sent on a wire whose CONNECT was refused
        connect_reqs = {(e[3], e[5]) for e in proxy_heads if e[7] == b"CONNECT"}
        for e in led.of("srv_resp"):
            if e[4].startswith("proxy:") and (e[3], e[5]) in connect_reqs:
                wid, seq = e[3], e[0]
                later = [x for x in led.of("c2s") if x[3] == wid and x[0] > seq]
                if later:
                    w.violate("C11", "bytes-sent-after-refused-connect", {"n": len(later)})
                    return
    # origin request bytes only after the 2xx (and TLS): the proxy parser would have
    # reported pipelined bytes as a second request head
    for e in led.of("srv_bad"):
        w.violate("C11", "malformed-bytes-at-proxy-or-origin", {"label": e[4], "why": e[5]})
        return


def socks_oracle(res, scn):
    w = res.world
    c = scn["c11"]
    cfg = c["socks_cfg"]
    led = w.ledger
    want_method = 2 if c.get("auth") else 0
    for e in led.of("socks_greeting"):
        if e[4] != 5 or tuple(e[5]) != (want_method,):
            w.violate("C11", "socks-greeting-offers-other-methods", {"methods": e[5], "want": want_method})
            return
    for e in led.of("socks_auth"):
        if [e[5].decode(), e[6].decode()] != list(c["auth"] or []):
            w.violate("C11", "socks-credentials-wrong", {"got": (e[5], e[6])})
            return
    for e in led.of("socks_early_data", "socks_unexpected_data"):
        w.violate("C11", "bytes-before-socks-success", {"data": e[-1][:60]})
        return
    connects = {e[3]: e for e in led.of("socks_connect")}
    for wid, e in connects.items():
        op_ev = next((x for x in led.of("c2s") if x[3] == wid), None)
        call = w.calls.get(op_ev[6]) if op_ev is not None else None
        if call is None:
            continue
        scheme, host, port = parse_url(call["op"]["url"])
        if e[5] != 1 or (e[7], e[8]) != (host, port):
            w.violate("C11", "socks-connect-names-other-target",
                      {"got": (e[5], e[7], e[8]), "want": (host, port)})
            return
    ok_cfg = (cfg.get("method_reply", want_method) == want_method
              and cfg.get("auth_status", 0) == 0 and cfg.get("reply_code", 0) == 0)
    up = {e[3] for e in led.of("socks_tunnel_up")}
    for e in led.of("srv_head"):
        if e[3] not in up:
            w.violate("C11", "http-bytes-without-socks-success", {"wire": e[3]})
            return
    for key, out in sorted(res.outcomes.items()):
        if ok_cfg:
            if "exc" in out:
                w.violate("C11", "socks-request-failed:%s" % out["exc"], {"msg": out.get("msg")})
                return
        elif out.get("exc") != "ProxyError":
            w.violate("C11", "socks-refusal-not-proxyerror:%s" % (out.get("exc") or out.get("status")),
                      {"cfg": {k: v for k, v in cfg.items() if k != "kind"}, "msg": out.get("msg")})
            return


register("C11", {
    "level": "exploration",
    "rule": "proxy kind in {http, https, socks5, socks5h} x credentials on/off x custom proxy "
            "headers incl. case-insensitive collisions with request headers x origins (names, "
            "IPv4, IPv6 literal; http/https; default/explicit ports) x request header lists and "
            "bodies x proxy replies (CONNECT: 2xx, 1xx-then-2xx, 101, 3xx-5xx with and without "
            "body; SOCKS: any method answer, auth status, reply code) x segmentation; in the asyncio "
            "family half of the runs add 2-3 concurrent callers that race for the connection the "
            "first caller has left idle (double assignment, ConnectionNotAvailable retries); oracle = "
            "the proxy peer's independent parse of each hop; all runs non-trivial",
    "assumptions": ["the thread family is single-caller"],
}, [ProxyFamily("proxy-hops-async", "asyncio", 3000, 60000),
    ProxyFamily("proxy-hops-threads", "threads", 600, 12000)])
