"""C17 — Upgrade / CONNECT hand-over loses no bytes."""
from __future__ import annotations

from .. import gen
from . import register
from .common import ScenarioFamily

MODES = ["101", "101", "connect", "101-in-tunnel"]


def rand_bytes(r, n):
    return bytes(r.randrange(256) for _ in range(n))


class UpgradeFamily(ScenarioFamily):
    chunk = 40

    def generate(self, seed, index, tier):
        r = gen.mk_rng(seed, "c17")
        mode = MODES[index % len(MODES)]
        tls = mode == "101-in-tunnel" or r.random() < 0.2
        scheme = "https" if tls else "http"
        port = 443 if tls else 80
        nseg = r.choice([0, 1, 1, 2, 3, 5])
        segs = [rand_bytes(r, r.choice([1, 2, 5, 20, 100, 700])) for _ in range(nseg)]
        late = [rand_bytes(r, r.choice([1, 3, 50, 400])) for _ in range(r.choice([0, 0, 1, 3]))]
        status = 101 if mode != "connect" else r.choice([200, 200, 204, 299])
        hdrs = [[b"x-echo-token", b"t0"]]
        if status == 101:
            hdrs = [[b"Connection", b"upgrade"], [b"Upgrade", b"sim"]] + hdrs
        plan = {"status": status, "reason": b"Switching" if status == 101 else b"OK",
                "framing": "none", "headers": hdrs,
                "header_lines": [k + b": " + v for k, v in hdrs],
                "tunnel": segs, "tunnel_late": late, "tunnel_gap": r.choice([0.0, 0.001, 0.02]),
                "cutmode": r.choice(["none", "none", "random", "bytes"])}
        if r.random() < 0.2:
            plan["interim"] = [103]
        data = b"".join(segs) + b"".join(late)
        writes = [rand_bytes(r, r.choice([1, 10, 300])) for _ in range(r.choice([0, 1, 3]))]
        mbs = [r.choice([1, 1, 2, 3, 7, 64, 1000, 65536]) for _ in range(r.randint(1, 5))]
        op = {"op": "request", "token": "t0",
              "method": "CONNECT" if mode == "connect" else "GET",
              "url": f"{scheme}://a.test/t/t0", "resp": plan,
              "headers": [] if mode == "connect" else [["Connection", "upgrade"], ["Upgrade", "sim"]],
              "consume": {"upgrade_read_all": {"total": len(data), "max_bytes": mbs,
                                               "writes": writes, "timeout": 2.0}},
              "timeouts": {"read": 2.0}}
        body_when = r.choice(["never", "never", "first", "first", "last"])
        if body_when != "never":
            op["consume"]["upgrade_read_all"]["body"] = body_when
        if mode == "connect":
            op["target"] = b"a.test:%d" % port
        rp = gen.mk_rng(seed, "c17post")
        post = None
        if mode == "101" and rp.random() < 0.3:
            # an Upgrade request that carries a body; the server switches protocols as soon
            # as it has the head (tunnel bytes in the same segments), and a later write of
            # the body fails: what the server had sent by then must still be handed over
            nb = [rp.randint(1, 300) for _ in range(rp.randint(2, 4))]
            op["method"] = "POST"
            op["body"] = {"len": sum(nb), "chunks": nb, "oneshot": True}
            plan["early"] = True
            plan.pop("interim", None)
            op["consume"]["upgrade_read_all"]["writes"] = []
            post = {"lead": b"".join(segs),
                    "faults": [{"at": rp.randint(2, 4 + len(nb)), "kind": "write_error"}]}
        plan2 = {"status": 200, "reason": b"OK", "framing": "cl", "body_len": 3,
                 "headers": [[b"Content-Length", b"3"]], "header_lines": [b"Content-Length: 3"]}
        op2 = {"op": "request", "token": "t1", "url": f"{scheme}://a.test/t/t1", "resp": plan2}
        eps = {f"a.test:{port}": {"kind": "origin", "tls": tls, "alpn": ["http/1.1"]}}
        pool = {"max_connections": r.choice([1, 2])}
        if mode == "101-in-tunnel":
            eps["px.test:8080"] = {"kind": "http_proxy"}
            pool["proxy"] = {"url": "http://px.test:8080"}
        scn = {"seed": seed, "exec": "asyncio", "pool": pool,
               "net": {"latency": r.choice(["zero", "small", "fixed"]),
                       "seg": r.choice(["whole", "whole", "random", "segment", "evil", "byte"]),
                       "endpoints": eps},
               "callers": [{"ops": [op, op2]}], "epilogue": ["close_pool"],
               "c17": {"data": data, "writes": b"".join(writes), "mode": mode}}
        if post is not None:
            scn["faults"] = post["faults"]
            scn["c17"]["post_lead"] = post["lead"]
            scn["c17"]["writes"] = b""
        return scn

    def post(self, res, scn):
        w = res.world
        out = res.outcomes.get(("c0", 0), {})
        c = scn["c17"]
        if "post_lead" in c and w.fault_sites:
            # the injected write failure resets the connection: the exchange may fail, but
            # once the caller holds the 101 response everything the server had sent before
            # the reset is handed over, in order and unaltered
            if out.get("status") == 101 and "net_reads" in out:
                got = b"".join(out["net_reads"])
                lead = c["post_lead"]
                if not c["data"].startswith(got) or not got.startswith(lead):
                    w.violate("C17", "handover-bytes-lost:after-write-failure",
                              {"got": got[:60], "lead": lead[:60]})
            return
        if out.get("exc") == "ReadTimeout" and "net_reads" in out:
            got = b"".join(out["net_reads"])
            w.violate("C17", "handover-bytes-lost", {"got": len(got), "expected": len(c["data"]),
                                                     "prefix_ok": c["data"].startswith(got)})
            return
        if "exc" in out:
            w.violate("C17", "upgrade-failed:%s" % out["exc"],
                      {"msg": out.get("msg"), "got": len(b"".join(out.get("net_reads", [])))})
            return
        got = b"".join(out.get("net_reads", []))
        if got != c["data"]:
            kind = ("lost" if len(got) < len(c["data"]) else
                    "duplicated" if len(got) > len(c["data"]) else "reordered-or-altered")
            w.violate("C17", "handover-bytes-" + kind, {"got": got[:80], "expected": c["data"][:80]})
            return
        for d, mb in zip(out.get("net_reads", []), out.get("net_max", [])):
            if len(d) > mb:
                w.violate("C17", "read-exceeds-max_bytes", {"len": len(d), "max_bytes": mb})
                return
        sent = b"".join(e[4] for e in w.ledger.of("tunnel_c2s") if e[3] == 0)
        if sent != c["writes"] and "post_lead" not in c:     # (there the request body follows the head)
            w.violate("C17", "writes-altered", {"sent": sent[:80], "expected": c["writes"][:80]})
            return
        # the upgraded wire never carries another request, and is closed with the response
        heads = [e for e in w.ledger.of("srv_head") if e[3] == 0 and e[4].startswith("origin")]
        if len(heads) > 1:
            w.violate("C17", "upgraded-connection-reused", {"heads": len(heads)})
            return
        out2 = res.outcomes.get(("c0", 1), {})
        if out2.get("status") != 200:
            w.violate("C17", "request-after-upgrade-failed:%s" % out2.get("exc"), out2.get("msg"))
            return
        closing = [e for e in w.ledger.of("wire_closing") if e[3] == 0]
        ret = [e for e in w.ledger.of("ret") if e[4] == b"t0"]
        if not closing or not ret or closing[0][0] > ret[0][0]:
            w.violate("C17", "upgraded-connection-not-closed-with-response", {})

    def nontrivial(self, res, scn):
        return len(scn["c17"]["data"]) > 0


register("C17", {
    "level": "exploration",
    "rule": "101 and CONNECT-2xx hand-overs (direct, and 101 inside a tunnelling proxy's own "
            "CONNECT) followed by 0..5 segments of tunnel bytes sent with the head plus 0..3 later "
            "segments; every segmentation mode including head and data in one read and one byte "
            "per read; caller reads with PRNG sequences of max_bytes (1..64k) and writes in "
            "between, and iterates the empty response body before, after or never; non-trivial = at least one post-head byte; distinct = event-log digest",
    "assumptions": ["single caller; the live connection's data are modelled as later segments"],
}, [UpgradeFamily("C17", "upgrade-async", 3000, 60000)])
