"""C05 — failed and cancelled requests give their pool slot back.
C06 — every network stream that is opened is eventually closed.

Both are decided by a systematic sweep: a seeded base scenario (connection type x
company x request shape x latencies) is dry-run once; then every cancellation
(kind x early/late x task step) and every network fault (kind x operation index) is
injected in its own deterministic execution on top of the same base."""
from __future__ import annotations

import copy

from .. import gen, oracles
from ..runner import Family, Unit
from ..scenario import run_scenario
from . import register

CTYPES = ["h1", "h1tls", "h2tls", "h2pk", "fwd", "tun_h1", "tun_h2", "socks_h1",
          "socks_tls", "socks_auth_h2", "stun_h1", "uds_h1"]
COMPANY = ["alone", "queued", "shared", "joiner", "behind"]


def _company_of(index):
    # diagonal: consecutive bases differ in connection type *and* company, so that a sweep
    # cut short by its time budget has still seen every company
    return COMPANY[(index // len(CTYPES) + index) % len(COMPANY)]


def base_index(ctype, company):
    """Index of the base scenario with this connection type and company."""
    for i in range(len(CTYPES) * len(COMPANY)):
        if CTYPES[i % len(CTYPES)] == ctype and _company_of(i) == company:
            return i
    raise KeyError((ctype, company))


def base_scenario(seed, index, ex="asyncio"):
    r = gen.mk_rng(seed, "c05base")
    ctype = CTYPES[index % len(CTYPES)]
    company = _company_of(index)
    tls = ctype in ("h1tls", "h2tls", "tun_h1", "tun_h2", "socks_tls", "socks_auth_h2",
                    "stun_h1")
    h2 = ctype in ("h2tls", "h2pk", "tun_h2", "socks_auth_h2")
    scheme = "https" if tls else "http"
    port = 443 if tls else 80
    pool = {"max_connections": 1 if company != "alone" or r.random() < 0.5 else 2}
    if h2:
        pool["http2"] = True
    if ctype == "h2pk":
        pool["http1"] = False
    if r.random() < 0.3:
        pool["keepalive_expiry"] = r.choice([0.0, 5.0])
    eps = {}
    for h in ("a.test", "b.test"):
        cfg = {"kind": "origin", "tls": tls}
        if tls:
            cfg["alpn"] = ["h2", "http/1.1"] if h2 else ["http/1.1"]
        if h2:
            cfg["h2"] = {"settings": {"max_concurrent_streams": r.choice([1, 10, 100])},
                         "wu": r.choice(["eager", "tiny", "late"])}
        eps[f"{h}:{port}"] = cfg
    px = None
    if ctype in ("fwd", "tun_h1", "tun_h2"):
        eps["px.test:8080"] = {"kind": "http_proxy"}
        px = {"url": "http://px.test:8080"}
        if r.random() < 0.5:
            px["auth"] = ["user", "pass"]
    elif ctype == "stun_h1":
        eps["spx.test:8443"] = {"kind": "http_proxy", "tls": True}
        px = {"url": "https://spx.test:8443"}
    elif ctype.startswith("socks"):
        auth = ["su", "sp"] if ctype == "socks_auth_h2" else None
        eps["sk.test:1080"] = {"kind": "socks", "auth": auth}
        px = {"url": "socks5://sk.test:1080"}
        if auth:
            px["auth"] = auth
    if px:
        pool["proxy"] = px
    ro = gen.mk_rng(seed, "c05opts")
    if ro.random() < 0.2:
        pool["socket_options"] = [[1, 9, 1]]         # SOL_SOCKET, SO_KEEPALIVE
    if ro.random() < 0.15 and ctype != "uds_h1":
        pool["local_address"] = "127.0.0.9"
    if ctype == "uds_h1":
        # every connection of the pool goes to one UNIX domain socket
        pool["uds"] = "/run/sim.sock"
        eps["unix:/run/sim.sock"] = dict(eps[f"a.test:{port}"])
    net = {"latency": r.choice(["zero", "fixed", "small", "small"]),
           "seg": r.choice(["whole", "random", "segment"]),
           "close_latency": r.choice([0.0, 0.0, 0.001, 0.3]),
           "endpoints": eps}

    def mkop(tok, host, shape):
        method = "POST" if shape["body"] else "GET"
        op = {"op": "request", "token": tok, "method": method,
              "url": f"{scheme}://{host}/t/{tok}",
              "resp": gen.gen_resp_plan(r, tok.encode(), method,
                                        {"body_len": shape["resp_len"], "p_interim": 0.1,
                                         "p_conn_close": 0.1, "p_http10": 0.0,
                                         "framings": ["cl", "cl", "chunked"]}),
              "consume": shape["consume"],
              "timeouts": {"connect": 5.0, "read": 5.0, "write": 5.0, "pool": 20.0}}
        if shape["body"]:
            op["body"] = {"len": shape["body"], "chunks": gen.gen_chunks(r, shape["body"]),
                          "oneshot": False}
        return op

    shape = {"body": r.choice([0, 0, 300, 5000]), "resp_len": r.choice([0, 50, 3000]),
             "consume": r.choice(["all", "all", {"chunks": 1}, "close"])}
    if h2 and shape["consume"] != "all":
        # an early-closed HTTP/2 response keeps its stream open on the wire; with a
        # server limit of one stream the next request fails (C12's business)
        for cfg in eps.values():
            if "h2" in cfg:
                cfg["h2"]["settings"]["max_concurrent_streams"] = 100
    callers = [{"ops": [mkop("t0", "a.test", shape)]}]
    if company == "joiner":
        # the target joins a connection that another request is establishing / using
        callers[0]["start"] = r.choice([0.0005, 0.003, 0.01, 0.02])
        callers.append({"start": 0.0,
                        "ops": [mkop("j0", "a.test", {"body": r.choice([0, 200]),
                                                      "resp_len": 40, "consume": "all"})]})
    elif company == "behind":
        # the target waits in the pool's queue behind a request to another origin
        callers[0]["start"] = r.choice([0.0, 0.0005, 0.003, 0.01])
        callers.append({"start": 0.0,
                        "ops": [mkop("b0", "b.test", {"body": 0, "resp_len": 2000,
                                                      "consume": r.choice(["all", {"hold": 0.02}])})]})
    elif company == "queued":
        callers.append({"start": r.choice([0.0, 0.001, 0.01]),
                        "ops": [mkop("q0", "b.test", {"body": 0, "resp_len": 20,
                                                      "consume": "all"})]})
    elif company == "shared":
        callers.append({"start": r.choice([0.0, 0.0, 0.001, 0.01]),
                        "ops": [mkop("s0", "a.test", {"body": r.choice([0, 200]),
                                                      "resp_len": 40, "consume": "all"})]})
        # a second companion: two waiters inside one HTTP/2 connection (stream slots) or
        # two queued requests for one HTTP/1.1 connection when the fault lands
        if r.random() < 0.8:
            callers.append({"start": r.choice([0.0, 0.0, 0.002]),
                            "ops": [mkop("s1", "a.test", {"body": 0, "resp_len": 10,
                                                          "consume": "all"})]})
    scn = {"seed": seed, "exec": ex, "sched": "fifo", "pool": pool, "net": net,
           "callers": callers, "ctype": ctype, "company": company,
           "epilogue": ["settle", "observe", "probe", "close_pool"],
           "probe_reuse": [f"{scheme}://a.test/t/reuse0"]
           + ([f"{scheme}://b.test/t/reuse1"] if company in ("queued", "behind") else [])}
    rt = gen.mk_rng(seed, "c05trace")
    if rt.random() < 0.5:
        # the caller observes the request through the 'trace' extension; the async
        # callback awaits once per event, so cancellations also land inside it
        scn["trace_yields"] = True
        for c in callers:
            for op in c["ops"]:
                if op.get("op") == "request":
                    op["trace"] = True
    if ex == "threads":
        scn.pop("sched")
        scn["policy"] = {"mode": "ops", "op_p": 0.5}
    elif ex == "trio":
        scn.pop("sched")
    return scn


class EpilogueObserver:
    """Evaluated at the epilogue's `observe` step: all callers have finished."""

    def setup(self, world, pool):
        self.w = world
        self.pool = pool
        self.obs = None

    def observe(self, where):
        pool = self.pool
        conns = pool.connections
        stuck = []
        for c in conns:
            if not c.is_idle() and not c.is_closed() and not c.has_expired():
                stuck.append(c.info())
        owned = oracles.reachable_wires(conns)
        orphans = [x.id for x in self.w.wires if x.state == "open" and x.id not in owned]
        self.obs = {"repr": repr(pool), "stuck": stuck, "orphans": orphans,
                    "conns": [c.info() for c in conns]}

    def post(self, res):
        res.info["epilogue_obs"] = self.obs


def state_word(info):
    for wd in ("CONNECTING", "CONNECTION FAILED", "NEW", "ACTIVE", "IDLE", "CLOSED"):
        if wd in info:
            return wd
    return "?"


def trigger_of(res, scn):
    inj = res.info.get("injected")
    c = scn.get("cancel")
    if c is not None:
        if inj is None:
            return None
        if c["kind"] == "native" and inj["shield"]:
            # anyio shields do not stop Task.cancel(): one root cause whatever the site
            return "native-cancel-inside-shield"
        return "%s-cancel|site=%s" % ("native" if c["kind"] == "native" else "scope",
                                      inj["site"])
    fs = res.world.fault_sites
    if fs:
        n, fault, opkind, site = fs[0]
        return "fault:%s|site=%s" % (fault, site)
    return "none"


def c05_oracle(res, scn):
    w = res.world
    trig = trigger_of(res, scn)
    if trig is None:
        return  # the cancellation was never delivered (caller finished earlier)
    pre = trig
    if trig == "native-cancel-inside-shield":
        return _c05_shield(res, scn)
    if res.error == "deadlock":
        sites = sorted({str(b[1]) for b in (res.blocked or [])})
        w.violate("C05", pre + "|residue=deadlock:" + ",".join(sites), {"blocked": res.blocked})
        return
    if res.error:
        return
    obs = res.info.get("epilogue_obs")
    if obs is None:
        return
    if "Requests: 0 active, 0 queued" not in obs["repr"]:
        w.violate("C05", pre + "|residue=request-still-counted", obs)
        return
    if obs["stuck"]:
        w.violate("C05", pre + "|residue=stuck:" + state_word(obs["stuck"][0]), obs)
        return
    ru = getattr(w, "reuse_result", None)
    if ru and any(x != 200 for x in ru):
        bad = next(x for x in ru if x != 200)
        msgs = getattr(w, "reuse_msgs", [])
        if bad == "LocalProtocolError" and any("Max outbound streams" in m for m in msgs):
            # one root cause whatever the trigger: the abandoned stream was never reset,
            # h2 still counts it while httpcore has released its slot
            w.violate("C05", "h2-abandoned-stream-keeps-slot:pooled-connection-unusable",
                      {"reuse": ru, "msgs": msgs, "trigger": pre, **obs})
            return
        w.violate("C05", pre + "|residue=pooled-connection-unusable:" + str(bad),
                  {"reuse": ru, "msgs": msgs, **obs})
        return
    pr = getattr(w, "probe_result", None)
    if pr is not None and any(x != 200 for x in pr):
        bad = next(x for x in pr if x != 200)
        w.violate("C05", pre + "|residue=probe:" + str(bad), {"probe": pr, **obs})
        return
    # companions
    faulted = bool(w.fault_sites) or w.stats.get("torn_write", 0) > 0
    for key, out in sorted(res.outcomes.items()):
        if key[0] == "c0":
            continue
        if out.get("phase") not in ("done", "failed"):
            w.violate("C05", pre + "|residue=companion-not-terminated", {"key": key})
            return
        if "exc" in out:
            if not out.get("documented"):
                continue  # C15's business
            if scn["company"] in ("queued", "behind") and not faulted:
                w.violate("C05", pre + "|residue=companion-failed:" + out["exc"],
                          {"key": key, "msg": out.get("msg")})
                return


def _c05_shield(res, scn):
    """Root cause: anyio shields do not stop Task.cancel().  Whatever the residue, it is
    one finding."""
    w = res.world
    obs = res.info.get("epilogue_obs") or {}
    pr = getattr(w, "probe_result", None)
    bad = (res.error == "deadlock"
           or "Requests: 0 active, 0 queued" not in obs.get("repr", "Requests: 0 active, 0 queued")
           or obs.get("stuck") or (pr is not None and any(x != 200 for x in pr)))
    if bad:
        w.violate("C05", "native-cancel-inside-shield", {"obs": obs, "probe": pr,
                                                          "error": res.error})


def c06_oracle(res, scn):
    w = res.world
    trig = trigger_of(res, scn)
    if trig is None or res.error:
        return
    pre = trig
    obs = res.info.get("epilogue_obs")
    if trig == "native-cancel-inside-shield":
        left = [x for x in w.wires if x.state != "closed"] if w.ledger.of("pool_closed") else []
        if (obs is not None and obs["orphans"]) or left:
            w.violate("C06", "native-cancel-inside-shield", {"obs": obs})
        return
    if obs is not None and obs["orphans"]:
        x = w.wires[obs["orphans"][0]]
        w.violate("C06", pre + "|orphan-stream:tls=%d" % len(x.tls),
                  {"orphans": obs["orphans"], "conns": obs["conns"]})
        return
    if w.ledger.of("pool_closed"):
        left = [x for x in w.wires if x.state != "closed"]
        if left:
            x = left[0]
            w.violate("C06", pre + "|open-after-pool-close:tls=%d" % len(x.tls),
                      {"wires": [y.id for y in left], "endpoint": x.endpoint})


class SweepFamily(Family):
    chunk = 1

    def __init__(self, prop, name, n_quick, n_thorough, ex="asyncio", kinds=("scope", "native"),
                 faults=True, stride_quick=1, seam=None):
        self.prop = prop
        self.name = name
        self.n_quick, self.n_thorough = n_quick, n_thorough
        self.ex = ex
        self.seam = seam
        self.kinds = kinds
        self.faults = faults
        self.stride_quick = stride_quick

    def units(self, tier):
        return self.n_quick if tier == "quick" else self.n_thorough

    def observers(self, scn):
        return [EpilogueObserver()]

    def run_scenario(self, scn):
        res = run_scenario(scn, self.observers(scn))
        c05_oracle(res, scn)
        c06_oracle(res, scn)
        res.violations = list(res.world.violations)
        return res

    def variants(self, base, dry):
        out = []
        steps = dry.info.get("task_steps", {}).get("c0", 0)
        sites = dry.info.get("step_sites") or []
        # runs of consecutive steps suspended at the same site (e.g. the 99 semaphore
        # acquisitions of HTTP/2 initialisation): keep the first two and the last
        ks = []
        for k in range(1, steps + 1):
            s_here = sites[k - 1] if k - 1 < len(sites) else None
            run_before = sum(1 for j in (k - 1, k - 2) if j >= 1 and j - 1 < len(sites)
                             and sites[j - 1] == s_here)
            nxt_same = k < len(sites) and sites[k] == s_here
            if run_before < 2 or not nxt_same:
                ks.append(k)
        if self.ex == "trio":
            for k in range(1, steps + 1):
                s = copy.deepcopy(base)
                s["cancel"] = {"caller": "c0", "kind": "scope", "timing": "early", "step": k}
                out.append(s)
            times = sorted({e[1] for e in dry.world.ledger.ev if e[2] == "op"})
            for t in times[:40]:
                s = copy.deepcopy(base)
                s["cancel"] = {"caller": "c0", "kind": "deadline", "t": t}
                out.append(s)
        if self.ex == "asyncio":
            for kind in self.kinds:
                for timing in ("early", "late"):
                    for k in ks:
                        s = copy.deepcopy(base)
                        s["cancel"] = {"caller": "c0", "kind": kind, "timing": timing,
                                       "step": k}
                        out.append(s)
            # deadline-style cancellation at the instant of every event of the dry run
            times = sorted({e[1] for e in dry.world.ledger.ev if e[2] == "op"})
            for t in times[:40]:
                s = copy.deepcopy(base)
                s["cancel"] = {"caller": "c0", "kind": "deadline", "t": t}
                out.append(s)
        if self.faults:
            ops = [e for e in dry.world.ledger.ev if e[2] == "op"]
            for e in ops:
                n, kind = e[3], e[4]
                nvar = {"connect": 2, "tls": 2, "recv": 3, "send": 2}.get(kind, 0)
                for v in range(nvar):
                    s = copy.deepcopy(base)
                    s["faults"] = [{"at": n, "kind": "auto", "variant": v}]
                    out.append(s)
        return out

    SLICES = 6

    def units(self, tier):
        return (self.n_quick if tier == "quick" else self.n_thorough) * self.SLICES

    def run_unit(self, seed, index, tier):
        """unit = (base scenario, slice of its variants): the dry run is repeated per
        slice (cheap) so that long sweeps balance over the workers."""
        from ..core import sub_seed

        u = Unit()
        bi, sl = divmod(index, self.SLICES)
        bseed = sub_seed(seed // (1 << 20), self.name, "base", bi) if False else None
        # all slices of a base must see the same base: derive it from the base index
        bseed = sub_seed(self._run_seed(seed, index), "base", bi)
        base = self.make_base(bseed, bi)
        if self.seam:
            base["seam"] = self.seam
            if self.ex == "threads" and base["ctype"] == "stun_h1":
                # TLS inside TLS needs a real ssl.MemoryBIO handshake (TLSinTLSStream)
                base = base_scenario(bseed, bi + 1, self.ex)
                base["seam"] = self.seam
        dry = self.run_scenario(dict(base, record_sites="c0"))
        if sl == 0:
            u.add_result(dry, base, self.prop, nontrivial=False, keep_sample=(bi % 11 == 0))
        if dry.error or any("exc" in o for o in dry.outcomes.values()):
            # the base itself must be healthy
            if sl == 0:
                u.viols.append({"prop": self.prop,
                                "sig": "base-scenario-unhealthy:%s" % base["ctype"],
                                "detail": repr((dry.error, {str(k): v.get("exc")
                                                            for k, v in dry.outcomes.items()})),
                                "scenario": base, "digest": dry.digest})
            return u
        vs = self.variants(base, dry)
        total = len(vs)
        vs = vs[sl::self.SLICES]
        if tier == "quick" and self.stride_quick > 1:
            off = (bi + sl) % self.stride_quick
            vs = vs[off::self.stride_quick]
        for s in vs:
            res = self.run_scenario(s)
            u.add_result(res, s, self.prop, nontrivial=True,
                         keep_sample=(sl == 0 and bi % 11 == 0 and len(u.samples) < 2))
        if sl == 0:
            u.extra["sweep_bases"] = 1
            u.extra["sweep_variants_per_base_total"] = total
        u.extra["sweep_variants_run"] = len(vs)
        if tier == "thorough" or self.stride_quick == 1:
            u.exhaustive = None
        return u

    def make_base(self, bseed, bi):
        return base_scenario(bseed, bi, self.ex)

    def _run_seed(self, seed, index):
        # run_unit receives sub_seed(VERIF_SEED, prop, family, index); the base must
        # not depend on the slice, so the runner passes the check seed through
        # Family.check_seed (set by the worker) instead.
        return getattr(self, "check_seed", 0)


def evictor_scenario(seed, index, ex="asyncio"):
    """The target request arrives when several pooled connections to other origins have
    expired: its own arrival pass evicts and closes all of them (two or three closes in
    one pass) before it gets a connection."""
    r = gen.mk_rng(seed, "evictor")
    ct = ["h1", "h1tls", "h2tls", "fwd", "socks_h1", "tun_h1"][index % 6]
    b = base_scenario(seed, base_index(ct, "alone"), ex)
    b["company"] = "evictor"
    k = r.choice([2, 2, 3])
    b["pool"]["max_connections"] = k
    b["pool"]["keepalive_expiry"] = 0.05
    b["net"]["close_latency"] = r.choice([0.0, 0.001, 0.05])
    acfg = next(v for key, v in b["net"]["endpoints"].items() if key.startswith("a.test:"))
    port = next(key for key in b["net"]["endpoints"] if key.startswith("a.test:")).split(":")[1]
    scheme = b["callers"][0]["ops"][0]["url"].split("://")[0]
    for i in range(k):
        host = f"e{i}.test"
        b["net"]["endpoints"][f"{host}:{port}"] = copy.deepcopy(acfg)
        tok = f"e{i}"
        plan = {"status": 200, "reason": b"OK", "framing": "cl", "body_len": 12,
                "headers": [[b"Content-Length", b"12"], [b"x-echo-token", tok.encode()]],
                "header_lines": [b"Content-Length: 12", b"x-echo-token: " + tok.encode()]}
        b["callers"].append({"start": 0.0, "ops": [
            {"op": "request", "token": tok, "method": "GET", "url": f"{scheme}://{host}/t/{tok}",
             "resp": plan, "consume": "all",
             "timeouts": {"connect": 5.0, "read": 5.0, "write": 5.0, "pool": 20.0}}]})
    b["callers"][0]["start"] = r.choice([0.5, 0.7])
    b["probe_reuse"] = []
    return b


class EvictSweepFamily(SweepFamily):
    def make_base(self, bseed, bi):
        return evictor_scenario(bseed, bi, self.ex)


class LimitSweepFamily(EvictSweepFamily):
    """The same sweep judged by C04's continuous limit invariant."""

    def observers(self, scn):
        return [EpilogueObserver(), oracles.LimitObserver()]

    def run_scenario(self, scn):
        res = super().run_scenario(scn)
        w = res.world
        mine = [v for v in w.violations if v[0] == "C04"]
        if mine and trigger_of(res, scn) == "native-cancel-inside-shield":
            # root cause of KF-C05-1: anyio shields do not stop Task.cancel(); here the
            # aborted clean-up is the closing of evicted connections
            w.violations[:] = [v for v in w.violations if v[0] != "C04"]
            w.violate("C04", "native-cancel-inside-shield", {"symptoms": sorted({v[1] for v in mine})})
            res.violations = list(w.violations)
        return res


FAMS05 = [SweepFamily("C05", "sweep-async", 55, 550),
          SweepFamily("C05", "sweep-trio", 22, 220, ex="trio"),
          SweepFamily("C05", "sweep-threads", 22, 220, ex="threads"),
          SweepFamily("C05", "sweep-async-L2", 22, 220, seam="L2"),
          SweepFamily("C05", "sweep-threads-L2", 11, 110, ex="threads", seam="L2"),
          SweepFamily("C05", "sweep-trio-L2", 11, 110, ex="trio", seam="L2"),
          EvictSweepFamily("C05", "evict-sweep-async", 6, 60)]
FAMS06 = [SweepFamily("C06", "sweep-async", 55, 550),
          SweepFamily("C06", "sweep-trio", 22, 220, ex="trio"),
          SweepFamily("C06", "sweep-threads", 22, 220, ex="threads"),
          SweepFamily("C06", "sweep-async-L2", 22, 220, seam="L2"),
          SweepFamily("C06", "sweep-threads-L2", 11, 110, ex="threads", seam="L2"),
          SweepFamily("C06", "sweep-trio-L2", 11, 110, ex="trio", seam="L2"),
          EvictSweepFamily("C06", "evict-sweep-async", 6, 60)]

register("C05", {
    "level": "fault_enumeration",
    "rule": "per seeded base scenario (11 connection types x alone/queued/shared company x "
            "request shapes x latencies): every cancellation (scope, native) x (early, late) "
            "x every task step of the target, deadline cancellation at the instant of every "
            "network operation, and every fault kind x every network operation index; each "
            "variant is its own execution, all are non-trivial; distinct = distinct event-log "
            "digest; executors asyncio, trio, threads; seams L1 and L2 (real AnyIOBackend, "
            "TrioBackend, SyncBackend); an extra 'evictor' base in which the target's arrival "
            "evicts 2-3 expired connections; half of the bases carry an async 'trace' callback "
            "that awaits once per event (cancellations land inside it); after every variant "
            "a reuse probe (one more "
            "request to every origin the scenario used must be served) and a capacity probe",
    "assumptions": ["fault positions are enumerated completely per base; bases are sampled",
                    "behavioural probes (one more request to the used origins, fresh requests to "
                    "fresh origins) are the arbiters of usability and capacity"],
}, FAMS05)

def _histories06():
    # concurrent histories (2-5 callers, all protocols and proxies, faults, scope / deadline
    # cancellations, connection retries with back-off) ended by pool.aclose(): nothing the
    # pool opened may still be open
    from .common import PoolMixFamily

    def post(res):
        if not res.error:
            oracles.leak_oracle(res, "C06")

    FAMS06.append(PoolMixFamily(
        "C06", "histories-async", 1500, 25000,
        {"exec": "asyncio", "faulty": True, "cancels": True, "cancel_kinds": ["scope", "deadline"],
         "p_srv_idle_close": 0.1, "p_h2_events": 0.3, "retries": [0, 0, 1, 3],
         "fault_rates": [0.03, 0.08, 0.2]}, [], [post]))


_histories06()

register("C06", {
    "level": "fault_enumeration",
    "rule": "same sweep as C05 (every cancel point and every fault index on seeded bases of "
            "all connection types incl. a UNIX domain socket, three executors, seams L1 and L2, "
            "plus the evictor base), plus conversations of every connection type whose peer "
            "bytes are corrupted at every stage (bit flips, truncation, duplication, junk); "
            "oracle = socket ledger: no orphan stream at quiescence, no stream open after the "
            "pool is closed",
    "assumptions": ["a stream is owned if it is reachable from pool.connections",
                    "the simulated backend closes the socket when a TLS upgrade fails with an "
                    "Exception, and not when it is cancelled, as the real backends do"],
}, FAMS06)
