"""C16 — time-outs are applied, and to the right operations; PoolTimeout is exact."""
from __future__ import annotations

from .. import gen
from . import register
from .common import ScenarioFamily
from .c05 import CTYPES, base_index, base_scenario

VALS = {"connect": [1.1, 1.25, None], "read": [2.2, 2.5, None], "write": [3.3, 3.75, None]}


def op_timeout(e):
    kind = e[4]
    if kind == "connect":
        return e[10]
    if kind in ("recv", "send"):
        return e[9]
    if kind == "tls":
        return e[11]
    return None


class ArgsFamily(ScenarioFamily):
    """Every simulated connect/start_tls/read/write records the timeout it was given."""

    chunk = 30

    def __init__(self, name, ex, nq, nt, seam=None):
        super().__init__("C16", name, nq, nt)
        self.ex = ex
        self.seam = seam

    def generate(self, seed, index, tier):
        r = gen.mk_rng(seed, "c16args")
        scn = base_scenario(seed, index, self.ex)
        if self.seam:
            if self.ex == "threads" and scn["ctype"] == "stun_h1":
                scn = base_scenario(seed, index + 1, self.ex)
            scn["seam"] = self.seam
        scn["log_sites"] = True
        scn["epilogue"] = ["close_pool"]
        if self.ex == "threads":
            scn["policy"] = {"mode": "ops", "op_p": 0.5}
        # HTTP/2: half of the time an upload larger than the server's window, so that
        # the reads made while waiting for flow-control credit are exercised too
        h2cfgs = [c for c in scn["net"]["endpoints"].values() if "h2" in c]
        if h2cfgs and r.random() < 0.5:
            for c in h2cfgs:
                c["h2"]["settings"]["initial_window_size"] = r.choice([100, 1000, 4000])
                c["h2"]["wu"] = r.choice(["eager", "late", "tiny", "batched"])
            op0 = scn["callers"][0]["ops"][0]
            n = r.choice([3000, 9000])
            op0["method"] = "POST"
            op0["body"] = {"len": n, "chunks": gen.gen_chunks(r, n), "oneshot": False}
        # a quarter of the requests carry the 'target' extension, before or after the
        # time-outs in the extensions dict
        rt = gen.mk_rng(seed, "c16target")
        for c in scn["callers"]:
            for op in c["ops"]:
                if op.get("op") == "request" and rt.random() < 0.25:
                    op["target"] = ("/t/%s?via=target-extension" % op["token"]).encode()
                    op["ext_order"] = rt.choice(["target-first", "target-last"])
        # distinct values per caller and per kind; some unset, some None
        for ci, c in enumerate(scn["callers"]):
            for op in c["ops"]:
                to = {}
                for k in ("connect", "read", "write"):
                    x = r.random()
                    if x < 0.7:
                        to[k] = VALS[k][0] + ci * 0.01
                    elif x < 0.85:
                        to[k] = None
                    # else: key absent
                if r.random() < 0.5:
                    to["pool"] = 30.0
                op["timeouts"] = to if (to or r.random() < 0.8) else None
        # an occasional stalled operation: it must fail after exactly its value
        if r.random() < 0.4:
            scn["net"]["fault_once"] = r.choice(["read_timeout", "write_timeout",
                                                 "connect_timeout", "tls_timeout"])
        return scn

    def post(self, res, scn):
        w = res.world
        calls = w.calls
        for e in w.ledger.of("op"):
            kind, tok, site = e[4], e[7], e[8]
            if kind == "close" or tok is None or tok not in calls or tok.startswith(b"probe"):
                continue
            d = calls[tok]["op"].get("timeouts") or {}
            got = op_timeout(e)
            want_key = {"connect": "connect", "tls": "connect", "recv": "read",
                        "send": "write"}[kind]
            want = d.get(want_key)
            negotiating = site is not None and site.startswith("socks_proxy.py:_init")
            if site is None:
                continue
            if negotiating:
                vals = [d.get(k) for k in ("connect", "read", "write")]
                if all(v is not None for v in vals):
                    ok = got in vals
                else:
                    ok = got is None or got in vals
                if not ok:
                    w.violate("C16", "negotiation-%s-without-configured-timeout" % kind,
                              {"site": site, "got": got, "configured": d})
                    return
            elif got != want:
                where = (site or "?").split(":")[0]
                w.violate("C16", "%s-op-got-%s-timeout@%s" % (
                    kind, _which(got, d), where), {"site": site, "got": got, "configured": d})
                return
        # stalled op: matching exception class at exactly start + value
        for (n, fault, opkind, site) in w.fault_sites:
            ev = next(e for e in w.ledger.of("op") if e[3] == n)
            tmo = op_timeout(ev)
            if tmo is None:
                continue
            tok = ev[7]
            out = next((o for o in res.outcomes.values() if o["token"] == tok), None)
            if out is None:
                continue
            want_exc = {"read_timeout": "ReadTimeout", "write_timeout": "WriteTimeout",
                        "connect_timeout": "ConnectTimeout", "tls_timeout": "ConnectTimeout"}[fault]
            exc_ev = next((x for x in w.ledger.of("exc") if x[4] == tok), None)
            if fault == "write_timeout" and out.get("exc") != "WriteTimeout" and \
                    str(site).startswith("http11.py"):
                continue  # HTTP/1.1 reads the response after a failed write (documented)
            if out.get("exc") != want_exc:
                w.violate("C16", "stalled-%s-raised-%s" % (opkind, out.get("exc")),
                          {"site": site, "timeout": tmo})
                return
            if exc_ev is not None and abs(exc_ev[1] - (ev[1] + tmo)) > 1e-6 and \
                    scn["net"].get("close_latency", 0) == 0:
                w.violate("C16", "stalled-%s-failed-at-wrong-instant" % opkind,
                          {"start": ev[1], "timeout": tmo, "raised": exc_ev[1]})
                return

    def nontrivial(self, res, scn):
        return True


class StallFamilyL2(ScenarioFamily):
    """Seam L2 (async): the real AnyIOBackend's anyio.fail_after() must fire in virtual
    time when an operation stalls: matching exception class at exactly start + value."""

    chunk = 30
    ex = "asyncio"

    def generate(self, seed, index, tier):
        r = gen.mk_rng(seed, "c16stall")
        scn = base_scenario(seed, base_index(CTYPES[index % len(CTYPES)], "alone"), self.ex)
        scn["seam"] = "L2"
        scn["log_sites"] = True
        scn["epilogue"] = ["close_pool"]
        scn["net"]["close_latency"] = 0.0
        vals = {"connect": r.choice([1.1, 0.7]), "read": r.choice([2.2, 0.9]),
                "write": r.choice([3.3, 1.3]), "pool": 30.0}
        rz = gen.mk_rng(seed, "c16zero")
        if rz.random() < 0.3:
            # a time-out of exactly 0 is a limit (the operation fails at once), not "none"
            vals[rz.choice(["read", "write", "read", "write", "connect"])] = 0.0
        for c in scn["callers"]:
            for op in c["ops"]:
                op["timeouts"] = dict(vals)
        scn["net"]["fault_once"] = r.choice(["read_timeout", "write_timeout", "connect_timeout",
                                             "tls_timeout"])
        scn["c16"] = {"vals": vals}
        return scn

    def post(self, res, scn):
        w = res.world
        vals = scn["c16"]["vals"]
        # whichever operation a time-out exception interrupts: its class matches the
        # operation and it is raised exactly value seconds after the operation started;
        # an operation whose value is 0 never completes
        KEY = {"connect": "connect", "tls": "connect", "recv": "read", "send": "write"}
        CLS = {"connect": "ConnectTimeout", "tls": "ConnectTimeout", "recv": "ReadTimeout",
               "send": "WriteTimeout"}
        ops = [e for e in w.ledger.of("op") if e[4] in KEY and e[7] is not None]
        for out in res.outcomes.values():
            tok = out["token"]
            mine = [e for e in ops if e[7] == tok]
            exc_ev = next((x for x in w.ledger.of("exc") if x[4] == tok), None)
            for i, e in enumerate(mine):
                site = e[8]
                key = KEY[e[4]]
                if site is not None and str(site).startswith("socks_proxy.py:_init"):
                    key = "connect"
                if vals.get(key) == 0.0 and i + 1 < len(mine):
                    w.violate("C16", "L2:zero-%s-timeout-not-applied" % key,
                              {"op": e[4], "site": site})
                    return
            if exc_ev is not None and str(out.get("exc", "")).endswith("Timeout") \
                    and out["exc"] != "PoolTimeout" and mine:
                last = [e for e in mine if e[0] < exc_ev[0]][-1]
                key = KEY[last[4]]
                if last[8] is not None and str(last[8]).startswith("socks_proxy.py:_init"):
                    key = "connect"
                if out["exc"] != CLS[last[4]]:
                    w.violate("C16", "L2:%s-interrupted-by-%s" % (last[4], out["exc"]),
                              {"site": last[8]})
                    return
                if abs(exc_ev[1] - (last[1] + vals[key])) > 1e-6:
                    w.violate("C16", "L2:%s-timeout-at-wrong-instant" % last[4],
                              {"start": last[1], "value": vals[key], "raised": exc_ev[1]})
                    return
        if res.error == "deadlock" and any(v == 0.0 for v in vals.values()):
            w.violate("C16", "L2:zero-timeout-waits-for-ever", {"blocked": res.blocked})
            return
        if not w.fault_sites:
            return
        n, fault, opkind, site = w.fault_sites[0]
        ev = next(e for e in w.ledger.of("op") if e[3] == n)
        key = {"connect": "connect", "tls": "connect", "recv": "read", "send": "write"}[opkind]
        if site is not None and site.startswith("socks_proxy.py:_init"):
            key = "connect"
        tok = ev[7]
        out = next((o for o in res.outcomes.values() if o["token"] == tok), None)
        if out is None:
            return
        # the class follows the operation (a negotiation read that times out is a
        # ReadTimeout), the value follows the phase (negotiation uses the connect value)
        want_exc = {"connect": "ConnectTimeout", "tls": "ConnectTimeout", "recv": "ReadTimeout",
                    "send": "WriteTimeout"}[opkind]
        exc_ev = next((x for x in w.ledger.of("exc") if x[4] == tok), None)
        if out.get("exc") != want_exc:
            w.violate("C16", "L2:stalled-%s-raised-%s" % (opkind, out.get("exc") or out.get("status")),
                      {"site": site, "expected": want_exc, "msg": out.get("msg")})
            return
        if exc_ev is not None and abs(exc_ev[1] - (ev[1] + vals[key])) > 1e-6:
            w.violate("C16", "L2:stalled-%s-failed-at-wrong-instant" % opkind,
                      {"start": ev[1], "value": vals[key], "raised": exc_ev[1], "site": site})

    def nontrivial(self, res, scn):
        return bool(res.world.fault_sites)


class StallFamilyTrioL2(StallFamilyL2):
    """The same under trio: the real TrioBackend's trio.fail_after()."""

    ex = "trio"


def _which(got, d):
    for k in ("connect", "read", "write", "pool"):
        if got is not None and d.get(k) == got:
            return k
    return "no" if got is None else "foreign"


class PoolDeadlineFamily(ScenarioFamily):
    """PoolTimeout at t_wait_start + pool, not earlier, not later."""

    chunk = 50

    def __init__(self, name, ex, nq, nt):
        super().__init__("C16", name, nq, nt)
        self.ex = ex

    def generate(self, seed, index, tier):
        r = gen.mk_rng(seed, "c16pool")
        hold = r.choice([0.05, 0.1, 0.25, 0.5])
        start_b = r.choice([0.0, 0.001, 0.01, 0.03])
        mode = r.choice(["before", "after", "after", "exact", "zero-capacity", "zero-busy"])
        lat = r.choice(["zero", "fixed", "small"])
        plan = lambda tok, n: {"status": 200, "reason": b"OK", "framing": "cl", "body_len": n,
                               "headers": [[b"Content-Length", b"%d" % n], [b"x-echo-token", tok]],
                               "header_lines": [b"Content-Length: %d" % n, b"x-echo-token: " + tok]}
        a = {"op": "request", "token": "a0", "url": "http://a.test/t/a0", "resp": plan(b"a0", 10),
             "consume": {"hold": hold}}
        pool_t = {"before": hold * r.choice([0.1, 0.5, 0.9]),
                  "after": hold * r.choice([1.5, 3.0, 10.0]) + 0.2,
                  "exact": hold - start_b if lat == "zero" else hold,
                  "zero-capacity": 0.0, "zero-busy": 0.0}[mode]
        b = {"op": "request", "token": "b0", "url": "http://b.test/t/b0", "resp": plan(b"b0", 20),
             "timeouts": {"pool": pool_t}}
        callers = [{"ops": [a]}, {"start": start_b, "ops": [b]}]
        maxc = 2 if mode == "zero-capacity" else 1
        scn = {"seed": seed, "exec": self.ex, "pool": {"max_connections": maxc},
               "net": {"latency": lat, "seg": "whole",
                       "endpoints": {"a.test:80": {"kind": "origin"}, "b.test:80": {"kind": "origin"}}},
               "callers": callers, "epilogue": ["observe", "probe", "close_pool"],
               "c16": {"mode": mode, "pool": pool_t, "hold": hold}}
        if self.ex == "asyncio":
            scn["sched"] = r.choice(["fifo", "shuffle"])
        elif self.ex == "threads":
            scn["policy"] = r.choice([{"mode": "ops", "op_p": 0.5}, {"mode": "lines", "p": 0.05}])
        return scn

    def observers(self, scn):
        from .c05 import EpilogueObserver

        return [EpilogueObserver()]

    def post(self, res, scn):
        w = res.world
        c = scn["c16"]
        P = c["pool"]
        call = next(e for e in w.ledger.of("call") if e[4] == b"b0")
        t0 = call[1]
        out = res.outcomes.get(("c1", 0), {})
        # instant at which the connection for b was obtained = its first network op
        first_op = next((e for e in w.ledger.of("op") if e[7] == b"b0"), None)
        # instant at which a's connection was released
        a_ret = next((e for e in w.ledger.of("ret") if e[4] == b"a0"), None)
        if c["mode"] == "zero-capacity":
            if out.get("status") != 200:
                w.violate("C16", "zero-pool-timeout-failed-with-capacity:%s" % out.get("exc"), {})
            return
        if out.get("exc") == "PoolTimeout":
            exc = next(e for e in w.ledger.of("exc") if e[4] == b"b0")
            if abs(exc[1] - (t0 + P)) > 1e-9:
                w.violate("C16", "pooltimeout-%s" % ("early" if exc[1] < t0 + P else "late"),
                          {"raised": exc[1], "deadline": t0 + P})
                return
            if a_ret is not None and a_ret[1] < t0 + P - 1e-9 and first_op is None \
                    and scn["net"].get("close_latency", 0) == 0:
                w.violate("C16", "pooltimeout-although-connection-was-free",
                          {"freed": a_ret[1], "deadline": t0 + P})
                return
            obs = res.info.get("epilogue_obs") or {}
            if "0 queued" not in obs.get("repr", "0 queued"):
                w.violate("C16", "pool-remembers-timed-out-request", obs)
                return
            pr = getattr(w, "probe_result", None)
            if pr is not None and any(x != 200 for x in pr):
                w.violate("C16", "capacity-lost-after-pooltimeout", {"probe": pr})
        elif out.get("status") == 200:
            if first_op is not None and first_op[1] > t0 + P + 1e-9:
                w.violate("C16", "request-served-after-its-pool-deadline",
                          {"obtained": first_op[1], "deadline": t0 + P})
        elif "exc" in out:
            w.violate("C16", "unexpected-failure:%s" % out["exc"], {"msg": out.get("msg")})

    def nontrivial(self, res, scn):
        return True


class QueueResidency:
    """Observes, after every scheduler step, whether each request the pool knows is waiting
    in the queue (no connection assigned) - read from pool._requests through guarded
    getattr; if the internals are missing the check is skipped and counted."""

    def setup(self, world, pool):
        self.w = world
        self.pool = pool
        self.spans = {}      # token -> list of [t_enter, t_leave|None]
        self.ok = True

    def on_change(self):
        reqs = getattr(self.pool, "_requests", None)
        if reqs is None:
            self.ok = False
            return
        now = self.w.now
        queued = set()
        for pr in list(reqs):
            rq = getattr(pr, "request", None)
            isq = getattr(pr, "is_queued", None)
            if rq is None or isq is None:
                self.ok = False
                return
            tok = dict((k.lower(), v) for k, v in rq.headers).get(b"x-token")
            if tok is not None and isq():
                queued.add(tok)
        for tok in queued:
            sp = self.spans.setdefault(tok, [])
            if not sp or sp[-1][1] is not None:
                sp.append([now, None])
        for tok, sp in self.spans.items():
            if tok not in queued and sp and sp[-1][1] is None:
                sp[-1][1] = now

    def post(self, res):
        res.info["queue_spans"] = self.spans if self.ok else None


class RequeueFamily(ScenarioFamily):
    """PoolTimeout when a request waits in the queue more than once: a request that was
    handed a still-connecting connection which then turns out to speak HTTP/1.1 is put
    back into the queue.  It may raise PoolTimeout only after having waited in the queue,
    without a connection, for its whole pool time-out - not earlier - and must be served
    if a connection becomes free before that."""

    chunk = 50

    def __init__(self, name, ex, nq, nt):
        super().__init__("C16", name, nq, nt)
        self.ex = ex

    def generate(self, seed, index, tier):
        r = gen.mk_rng(seed, "c16requeue")
        hold = r.choice([0.05, 0.1, 0.3])
        start_b = r.choice([0.001, 0.002, 0.004])
        mode = r.choice(["before", "after", "after", "long-first-wait"])
        plan = lambda tok, n: {"status": 200, "reason": b"OK", "framing": "cl", "body_len": n,
                               "headers": [[b"Content-Length", b"%d" % n], [b"x-echo-token", tok]],
                               "header_lines": [b"Content-Length: %d" % n, b"x-echo-token: " + tok]}
        a = {"op": "request", "token": "a0", "url": "https://a.test/t/a0", "resp": plan(b"a0", 10),
             "consume": {"hold": hold}}
        # the connect + TLS of the first connection takes 2 x 0.005 (latency "fixed")
        pool_t = {"before": hold * r.choice([0.2, 0.6]),
                  "after": hold * r.choice([1.5, 4.0]) + 0.1,
                  # longer than the time already spent, shorter than spent + remaining wait
                  "long-first-wait": hold + 0.004}[mode]
        b = {"op": "request", "token": "b0", "url": "https://a.test/t/b0", "resp": plan(b"b0", 20),
             "timeouts": {"pool": pool_t}}
        scn = {"seed": seed, "exec": self.ex,
               "pool": {"max_connections": 1, "http2": True},
               "net": {"latency": "fixed", "seg": "whole",
                       "endpoints": {"a.test:443": {"kind": "origin", "tls": True,
                                                    "alpn": ["http/1.1"]}}},
               "callers": [{"ops": [a]}, {"start": start_b, "ops": [b]}],
               "epilogue": ["observe", "probe", "close_pool"], "probe_scheme": "https",
               "c16": {"mode": mode, "pool": pool_t, "hold": hold}}
        if self.ex == "asyncio":
            scn["sched"] = r.choice(["fifo", "shuffle"])
        elif self.ex == "threads":
            scn["policy"] = {"mode": "ops", "op_p": 0.5}
        return scn

    def observers(self, scn):
        from .c05 import EpilogueObserver

        return [EpilogueObserver(), QueueResidency()]

    def post(self, res, scn):
        w = res.world
        if res.error:
            return
        P = scn["c16"]["pool"]
        spans = res.info.get("queue_spans")
        if spans is None:
            w.probes["c16_requeue_skipped_internals_missing"] += 1
            return
        sp = spans.get(b"b0") or []
        out = res.outcomes.get(("c1", 0), {})
        call = next(e for e in w.ledger.of("call") if e[4] == b"b0")
        requeued = bool(sp) and sp[-1][0] > call[1] + 1e-9
        if requeued:
            w.probes["c16_requeued"] += 1
        if out.get("exc") == "PoolTimeout":
            exc = next(e for e in w.ledger.of("exc") if e[4] == b"b0")
            last = sp[-1] if sp else None
            waited = (exc[1] - last[0]) if last else 0.0
            if waited < P - 1e-9:
                w.violate("C16", "pooltimeout-early:after-requeue" if requeued
                          else "pooltimeout-early", {"raised": exc[1], "queued_since": last and last[0],
                                                     "pool": P})
                return
            if waited > P + 1e-9:
                w.violate("C16", "pooltimeout-late:after-requeue" if requeued
                          else "pooltimeout-late", {"raised": exc[1], "queued_since": last and last[0],
                                                    "pool": P})
                return
        elif out.get("status") == 200:
            for t0, t1 in sp:
                if t1 is not None and t1 - t0 > P + 1e-9:
                    w.violate("C16", "request-served-after-its-pool-deadline",
                              {"span": (t0, t1), "pool": P})
                    return
        elif "exc" in out:
            w.violate("C16", "unexpected-failure:%s" % out["exc"], {"msg": out.get("msg")})

    def nontrivial(self, res, scn):
        return True


register("C16", {
    "level": "exploration",
    "rule": "(a) every connection type x company of the C05 bases with distinct per-caller "
            "connect/read/write values, None and absent keys: the timeout argument recorded for "
            "each simulated connect/start_tls/read/write is compared with the configured value "
            "of its kind; a stalled operation must fail with the matching exception at exactly "
            "start + value; (b) pool deadline before / exactly at / after the instant a "
            "connection frees up, and zero pool time-out with and without capacity, on asyncio "
            "(fifo+shuffle), trio and pre-emptive threads; (c) a request re-queued after "
            "having been handed a connecting connection that turns out to be HTTP/1.1: "
            "PoolTimeout only after a full pool time-out spent in the queue (queue residency "
            "observed step by step); (d) at L2, HTTP/2 uploads beyond the server's window "
            "(reads made while waiting for credit) and time-outs of exactly 0; all runs "
            "non-trivial",
    "assumptions": ["seam L1: the simulated stream honours the timeout it is given; what is "
                    "checked is which value httpcore passes to which operation",
                    "seam L2 (three families): the real SyncBackend's settimeout() values reach "
                    "the fake socket, and the real AnyIOBackend's anyio.fail_after() / the real "
                    "TrioBackend's trio.fail_after() fire in virtual time when an operation stalls"],
}, [ArgsFamily("timeout-args-async", "asyncio", 1500, 30000),
    ArgsFamily("timeout-args-threads", "threads", 500, 10000),
    PoolDeadlineFamily("pool-deadline-async", "asyncio", 1500, 30000),
    PoolDeadlineFamily("pool-deadline-threads", "threads", 500, 10000),
    PoolDeadlineFamily("pool-deadline-trio", "trio", 800, 15000),
    ArgsFamily("timeout-args-threads-L2", "threads", 400, 8000, seam="L2"),
    StallFamilyL2("C16", "stalled-ops-async-L2", 800, 15000),
    StallFamilyTrioL2("C16", "stalled-ops-trio-L2", 500, 10000),
    RequeueFamily("pool-requeue-async", "asyncio", 600, 12000),
    RequeueFamily("pool-requeue-threads", "threads", 200, 4000),
    RequeueFamily("pool-requeue-trio", "trio", 300, 6000)])
