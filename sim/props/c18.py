"""C18 — sync and async APIs behave identically (differential simulation)."""
from __future__ import annotations

import copy
import os
import sys

from .. import gen, sut
from ..core import sub_seed
from ..runner import Family, Unit
from ..scenario import run_scenario
from . import register

HC_ASYNC = os.path.join(sut.HC_DIR, "_async") + os.sep
HC_SYNC = os.path.join(sut.HC_DIR, "_sync") + os.sep


def corpus_scenario(seed, index, tier):
    """A single-caller scenario from one of the other families' generators."""
    from . import c02, c03, c05, c09, c10, c11, c15, c16, c17, c20

    k = index % 11
    r = gen.mk_rng(seed, "c18")
    if k == 10:
        # one caller, sequential requests on one HTTP/2 connection while the server
        # sends GOAWAY (last-stream-id equal / below / above) or RST_STREAM
        from .common import gen_poolmix

        s = gen_poolmix(seed, "quick", {"exec": "asyncio", "protos": ["h2"], "min_callers": 1,
                                        "max_callers": 1, "p_h2_events": 1.0, "proxies": ["none"],
                                        "single_origin": True, "scheds": ["fifo"],
                                        "p_pool_timeout": 0.0})
        s.pop("tick", None)
        return "h2ev", s
    if k == 0:
        return "c02", c02.base(seed, index // 11, tier)
    if k == 1:
        fam = c03.SerialiseFamily("x", "asyncio", 0, 0)
        m = index // 11
        # single-caller modes of the C03 generator: "plain" (0) and "forward" (5)
        return "c03", fam.generate(seed, m * 6 + (5 if m % 4 == 3 else 0), tier)
    if k == 2:
        fam = c09.KeepAliveFamily("x", "asyncio", 0, 0)
        return "c09", fam.generate(seed, index // 11, tier)
    if k == 3:
        fam = c10.OriginFamily("x", "threads", 0, 0)   # single caller variant
        s = fam.generate(seed, index // 11, tier)
        s["exec"] = "asyncio"
        s.pop("policy", None)
        return "c10", s
    if k == 4:
        fam = c11.ProxyFamily("x", "asyncio", 0, 0)
        s = fam.generate(seed, index // 11, tier)
        s["callers"] = s["callers"][:1]      # without the concurrent companions
        return "c11", s
    if k == 5:
        fam = c17.UpgradeFamily("C17", "x", 0, 0)
        return "c17", fam.generate(seed, index // 11, tier)
    if k == 6:
        fam = c20.RetryFamily("C20", "x", 0, 0)
        return "c20", fam.generate(seed, index // 11, "quick")
    if k == 7:
        fam = c15.ScratchFamily("C15", "x", 0, 0)
        return "c15", fam.generate(seed, index // 11, tier)
    # single-caller I/O-fault runs on the C05 bases (company "alone")
    b = c05.base_scenario(seed, c05.base_index(c05.CTYPES[(index // 11) % len(c05.CTYPES)], "alone"),
                          "asyncio")
    b["epilogue"] = ["observe", "close_pool"]
    if k == 8:
        b["net"]["fault_once"] = r.choice(["read_error", "write_error", "eof", "connect_error",
                                           "tls_error", "read_timeout", "write_timeout",
                                           "connect_timeout", "tls_timeout"])
        return "c05", b
    fam = c16.ArgsFamily("x", "asyncio", 0, 0)
    s = fam.generate(seed, c05.base_index(c05.CTYPES[(index // 11) % len(c05.CTYPES)], "alone"), tier)
    s["epilogue"] = ["observe", "close_pool"]
    return "c16", s


def add_second_access(scn, r):
    """A caller may stop iterating a response part-way and then ask for the body again
    (Response.read / iter_stream in _models.py have hand-written sync and async twins):
    both variants must answer alike."""
    for c in scn.get("callers", ()):
        for op in c.get("ops", ()):
            if op.get("op") == "request" and op.get("consume", "all") in ("all", "close") \
                    and r.random() < 0.5:
                op["consume"] = {"chunks": r.choice([0, 1, 1, 2]), "then": r.choice(["read", "iter"])}


def to_sync(scn):
    s = copy.deepcopy(scn)
    s["exec"] = "threads"
    s["policy"] = {"mode": "ops", "op_p": 0.0}
    s.pop("sched", None)
    s.pop("cancel", None)
    return s


class Obs:
    """End-of-run observation shared by both variants."""

    def setup(self, world, pool):
        self.pool = pool
        self.w = world
        self.snap = None

    def observe(self, where):
        self.snap = (repr(self.pool).replace("AsyncConnectionPool", "ConnectionPool")
                     .replace("AsyncHTTPProxy", "HTTPProxy").replace("AsyncSOCKSProxy", "SOCKSProxy"),
                     [c.info() for c in self.pool.connections])

    def post(self, res):
        res.info["obs"] = self.snap


def projection(res):
    """What must be equal between the variants."""
    w = res.world
    wires = {}
    ops = []
    ntrace = None
    for e in w.ledger.ev:
        k = e[2]
        if k == "TEARDOWN":
            ntrace = e[3]
            break  # how the harness ends blocked callers differs by executor
        if k == "c2s":
            wires.setdefault(e[3], []).append(("c2s", e[7]))
        elif k == "s2c":
            wires.setdefault(e[3], []).append(("s2c", e[5]))
        elif k == "op":
            ops.append((e[1], e[4], e[5]) + tuple(e[9:]))
        elif k in ("wire_open", "wire_closing", "wire_closed"):
            ops.append((e[1], k, e[3]))
        elif k == "tls_up":
            ops.append((e[1], k) + tuple(e[3:]))
    outs = {}
    for key, out in sorted(res.outcomes.items()):
        keys = ("status", "headers", "body", "complete", "exc", "phase", "failed_phase",
                "net_reads", "second_access")
        if res.error:
            # the run was torn down with callers still blocked: how the harness ends
            # them differs by executor
            keys = ("status", "headers", "body", "complete", "exc", "net_reads", "second_access")
        o = {k: v for k, v in out.items() if k in keys}
        if "msg" in out:
            o["msg"] = out["msg"].replace("Async", "")
        if "ext" in out:
            o["ext"] = dict(out["ext"])
        outs[key] = o
    return {"wires": wires, "ops": ops, "outcomes": outs, "sleeps": list(w.sleeps),
            "obs": res.info.get("obs"), "error": res.error,
            # body-iteration trace events depend on when Python finalises an abandoned
            # generator (at once by refcount for sync, by the loop for async)
            "trace": [t for t in list(getattr(w, "trace_events", []))[:ntrace]
                      if "receive_response_body" not in t[1]]}


def first_diff(a, b):
    for key in ("error", "outcomes", "wires", "ops", "sleeps", "trace", "obs"):
        if a[key] != b[key]:
            x, y = a[key], b[key]
            detail = None
            if isinstance(x, list) and isinstance(y, list):
                for i, (p, q) in enumerate(zip(x, y)):
                    if p != q:
                        detail = (i, p, q)
                        break
                else:
                    detail = ("length", len(x), len(y))
            elif isinstance(x, dict) and isinstance(y, dict):
                for k2 in sorted(set(x) | set(y), key=str):
                    if x.get(k2) != y.get(k2):
                        detail = (k2, x.get(k2), y.get(k2))
                        break
            else:
                detail = (x, y)
            return key, detail
    return None, None


class _LineTracer:
    def __init__(self, prefix):
        self.prefix = prefix
        self.lines = set()

    def __call__(self, frame, event, arg):
        fn = frame.f_code.co_filename
        if fn.startswith(self.prefix):
            return self._local
        return None

    def _local(self, frame, event, arg):
        if event == "line":
            self.lines.add((os.path.basename(frame.f_code.co_filename), frame.f_lineno))
        return self._local


class DiffFamily(Family):
    chunk = 10

    def __init__(self, nq, nt):
        self.prop = "C18"
        self.name = "differential"
        self.n_quick, self.n_thorough = nq, nt

    def units(self, tier):
        return self.n_quick if tier == "quick" else self.n_thorough

    def run_pair(self, scn, lockstep):
        a_scn = copy.deepcopy(scn)
        s_scn = to_sync(scn)
        for s in (a_scn, s_scn):
            for c in s["callers"]:
                for op in c["ops"]:
                    if op.get("op") == "request":
                        op["trace"] = True
        if "observe" not in a_scn.get("epilogue", []):
            for s in (a_scn, s_scn):
                s["epilogue"] = ["observe"] + list(s.get("epilogue", []))
        ta = ts = None
        if lockstep:
            ta = _LineTracer(HC_ASYNC)
            sys.settrace(ta)
        try:
            ra = run_scenario(a_scn, [Obs()])
        finally:
            if lockstep:
                sys.settrace(None)
        if lockstep:
            s_scn["linecov"] = True
        rs = run_scenario(s_scn, [Obs()])
        pa, ps = projection(ra), projection(rs)
        key, detail = first_diff(pa, ps)
        if key is not None:
            ra.world.violate("C18", "sync-async-differ:%s:%s" % (scn.get("c18src", "?"), key),
                             {"first_difference": repr(detail)[:600]})
        elif lockstep and not ra.error and not rs.error:
            sl = {(os.path.basename(f), ln) for (f, ln) in (rs.info.get("linecov") or ())
                  if f.startswith(HC_SYNC)}
            al = ta.lines
            if sl != al:
                only_a = sorted(al - sl)[:5]
                only_s = sorted(sl - al)[:5]
                f0 = (only_a or only_s)[0][0]
                ra.world.violate("C18", "executed-lines-differ:%s" % f0,
                                 {"only_async": only_a, "only_sync": only_s})
            ra.info["lines"] = len(al)
        ra.violations = list(ra.world.violations)
        return ra, rs

    def run_scenario(self, scn):
        ra, rs = self.run_pair(scn, lockstep=bool(scn.get("c18lock")))
        return ra

    def run_unit(self, seed, index, tier):
        u = Unit()
        src, scn = corpus_scenario(seed, index, tier)
        r2 = gen.mk_rng(seed, "c18second")
        if src in ("c02", "c03", "c09", "c10", "c11", "c16") and r2.random() < 0.25:
            add_second_access(scn, r2)
        scn["c18src"] = src
        scn["c18lock"] = (index % 3 == 0)
        ra, rs = self.run_pair(scn, lockstep=scn["c18lock"])
        u.add_result(ra, scn, "C18", nontrivial=True, keep_sample=(index % 97 == 0))
        u.evals += 1
        u.execs["threads"] += 1
        u.extra["pairs"] = 1
        if scn["c18lock"]:
            u.extra["lockstep_pairs"] = 1
        return u


register("C18", {
    "level": "exploration",
    "rule": "differential simulation: each single-caller scenario of the corpus (generators of "
            "C02, C03 (plain and forward-proxy modes), C09, C10, C11, C15-scratch, C16, C17, C20, "
            "single-caller HTTP/2 histories with GOAWAY / RST_STREAM events and single-caller "
            "I/O-fault runs on the C05 bases) is executed for the same seed through the async classes on the "
            "virtual-time event loop and through the sync classes on the thread executor; "
            "compared: per-wire byte streams in both directions, the sequence of network "
            "operations with their arguments and virtual instants, caller outcomes (status, "
            "headers, body, exception class and message), backend.sleep calls, trace-extension "
            "event names, repr(pool) and connection info at the end; for every third pair also "
            "the sets of executed source lines of httpcore/_async/X.py and httpcore/_sync/X.py "
            "(lock-step); one pair = two executions; all pairs non-trivial",
    "assumptions": ["the textual clause (the sync sources are the mechanical translation) is "
                    "claimed only through its behavioural consequences within corpus reach",
                    "seam L1 for both variants (the real sync/async backends are different code "
                    "by design)"],
}, [DiffFamily(2400, 48000)])
