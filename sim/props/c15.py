"""C15 — only documented exception types reach the caller."""
from __future__ import annotations

import copy
import struct

from .. import gen
from ..runner import Family, Unit
from ..scenario import run_scenario
from . import register
from .c03 import gen_request, make_illegal
from .c05 import CTYPES, base_index, base_scenario
from .common import ScenarioFamily

FORBIDDEN_FOR_PEER_FAULT = ("LocalProtocolError", "UnsupportedProtocol", "ConnectionNotAvailable")


def exc_oracle(res, scn, caller_error=False):
    w = res.world
    if res.error == "deadlock":
        from .c12 import blocked_sites

        w.violate("C15", "call-hangs-after-input-ended:" + ",".join(blocked_sites(res))[:120],
                  {"blocked": res.blocked})
        return
    if res.error:
        return
    stage = scn.get("c15", {}).get("stage", "?")
    for key, out in sorted(res.outcomes.items()):
        for rec in (out, out.get("close_exc"), out.get("after_close")):
            if not rec or "exc" not in rec:
                continue
            name, mod = rec["exc"], rec.get("mod", "")
            if rec is out.get("after_close") and name == "RuntimeError" and mod == "builtins":
                continue      # (the response model refusing a second iteration is not I/O)
            if not rec.get("documented"):
                top = mod.split(".")[0]
                w.violate("C15", "undocumented:%s.%s@%s" % (top, name, stage),
                          {"msg": rec.get("msg"), "phase": out.get("failed_phase"), "key": key})
                return
            if caller_error or rec is out.get("after_close"):
                continue
            if name == "LocalProtocolError" and "Max outbound streams" in (rec.get("msg") or ""):
                # root cause shared with KF-C12-2: the client-side stream slot was released
                # (failed or early-closed stream, or MAX_CONCURRENT_STREAMS=0 ignored) while
                # h2 still counts the stream as open
                w.violate("C15", "h2-stream-slot-disagreement-reported-as:LocalProtocolError",
                          {"msg": rec.get("msg"), "stage": stage})
                return
            if name in FORBIDDEN_FOR_PEER_FAULT:
                w.violate("C15", "peer-fault-reported-as:%s@%s" % (name, stage),
                          {"msg": rec.get("msg"), "phase": out.get("failed_phase")})
                return
        if caller_error and out.get("exc") != "LocalProtocolError" and \
                w.calls[out["token"]]["op"].get("caller_error"):
            w.violate("C15", "invalid-request-not-localprotocolerror:%s:%s" % (
                w.calls[out["token"]]["op"]["caller_error"], out.get("exc") or "sent"), {})
            return


KINDS = ["flip", "flip", "set", "insert", "delete", "dup", "eof", "reset", "garbage"]


class CorruptFamily(Family):
    """Valid conversations of every connection type passed through the corrupting peer at
    every stage."""

    chunk = 1
    SLICES = 4

    def __init__(self, nq, nt):
        self.prop = "C15"
        self.name = "corrupt-async"
        self.n_quick, self.n_thorough = nq, nt

    def units(self, tier):
        return (self.n_quick if tier == "quick" else self.n_thorough) * self.SLICES

    def run_scenario(self, scn):
        res = run_scenario(scn, [])
        exc_oracle(res, scn)
        res.violations = list(res.world.violations)
        return res

    def run_unit(self, seed, index, tier):
        from ..core import sub_seed

        u = Unit()
        bi, sl = divmod(index, self.SLICES)
        bseed = sub_seed(getattr(self, "check_seed", 0), "c15base", bi)
        b = base_scenario(bseed, bi * 5, "asyncio")
        if bi % 2 == 1 and b["ctype"] in ("h2tls", "h2pk", "tun_h2", "socks_auth_h2"):
            # two or three multiplexed streams with multi-frame bodies, so that one stream
            # is in the middle of its body when another stream's read meets the corruption
            from .common import _shrink_plan

            rr = gen.mk_rng(bseed, "c15shared")
            b = base_scenario(bseed, base_index(b["ctype"], "shared"), "asyncio")
            for c in b["callers"]:
                for op in c["ops"]:
                    _shrink_plan(op["resp"], rr.choice([1500, 3000]))
                    if op["resp"].get("framing") != "none":
                        op["resp"]["h2_frame"] = rr.choice([100, 300, 1000])
                    op["resp"].pop("think", None)
                    op["consume"] = "all"
                c["start"] = 0.0
            for cfg in b["net"]["endpoints"].values():
                if "h2" in cfg:
                    cfg["h2"]["settings"]["max_concurrent_streams"] = 100
                    cfg["h2"]["interleave"] = "random"
        b["epilogue"] = ["close_pool"]
        for c in b["callers"]:
            for op in c["ops"]:
                op["timeouts"] = {"connect": 3.0, "read": 3.0, "write": 3.0, "pool": 3.0}
        b["c15"] = {"stage": b["ctype"]}
        dry = run_scenario(b, [])
        total = dry.world.wires[0].npushed if dry.world.wires else 0
        if sl == 0:
            u.add_result(dry, b, self.prop, nontrivial=False, keep_sample=(bi % 7 == 0))
        if total == 0:
            return u
        r = gen.mk_rng(seed, "c15corrupt")
        if total <= (300 if tier == "thorough" else 120):
            offs = list(range(total))
        else:
            offs = sorted({r.randrange(total) for _ in range(40 if tier == "quick" else 120)}
                          | set(range(0, min(total, 24))))
        jobs = []
        for i, at in enumerate(offs):
            for kind in ([KINDS[(i + bi) % len(KINDS)]] if tier == "quick" else KINDS[::2]):
                jobs.append((at, kind))
        for at, kind in jobs[sl::self.SLICES]:
            s = copy.deepcopy(b)
            s["net"]["corrupt"] = {"wire": 0, "ops": [{"at": at, "kind": kind, "seed": at * 7 + 1,
                                                      "n": r.choice([1, 4, 64])}]}
            res = self.run_scenario(s)
            u.add_result(res, s, self.prop, nontrivial=True)
        return u


class CorruptLeakFamily(CorruptFamily):
    """C06 under peer misbehaviour: the same corrupted conversations, judged by the socket
    ledger - once the pool has been closed no stream it opened may still be open, however
    the connection died."""

    def __init__(self, nq, nt):
        super().__init__(nq, nt)
        self.prop = "C06"
        self.name = "corrupt-peer-async"

    def run_scenario(self, scn):
        from .. import oracles

        res = run_scenario(scn, [])
        if not res.error:
            oracles.leak_oracle(res, "C06")
        res.violations = list(res.world.violations)
        return res


def h2_frame(typ, flags, sid, payload):
    return struct.pack(">I", len(payload))[1:] + bytes([typ, flags]) + struct.pack(">I", sid) + payload


def scratch_script(r, proto):
    """From-scratch byte streams: grammar-based with junk fields."""
    out = []
    if proto == "h1":
        n = r.randint(1, 4)
        for _ in range(n):
            x = r.random()
            if x < 0.25:
                data = bytes(r.randrange(256) for _ in range(r.randint(1, 200)))
            elif x < 0.5:
                data = r.choice([b"HTTP/1.1 200 OK\r\n", b"HTTP/1.1 2000 OK\r\n\r\n", b"HTTP/9.9 200 OK\r\n\r\n",
                                 b"HTTP/1.1 200\r\n\r\n", b"ICY 200 OK\r\n\r\n", b"\r\n\r\n",
                                 b"HTTP/1.1 200 OK\r\nContent-Length: -1\r\n\r\n",
                                 b"HTTP/1.1 200 OK\r\nContent-Length: 5\r\nContent-Length: 6\r\n\r\nabcdef",
                                 b"HTTP/1.1 200 OK\r\nTransfer-Encoding: chunked\r\n\r\nZZ\r\nabc\r\n0\r\n\r\n",
                                 b"HTTP/1.1 200 OK\r\nTransfer-Encoding: chunked\r\n\r\n5\r\nabc",
                                 b"HTTP/1.1 200 OK\r\nBad Header\r\n\r\n",
                                 b"HTTP/1.1 200 OK\r\nX: a\x00b\r\n\r\n",
                                 b"HTTP/1.1 101 Switching\r\n\r\n", b"HTTP/1.1 100 Continue\r\n\r\n",
                                 b"HTTP/1.1 200 OK\r\n" + b"X-Long: " + b"a" * 120000 + b"\r\n\r\n"])
            else:
                data = b"HTTP/1.1 %d %s\r\n" % (r.choice([99, 100, 200, 204, 304, 600, 999]),
                                               r.choice([b"OK", b"", b"\xff\xfe", b"a\tb"]))
                for _ in range(r.randint(0, 3)):
                    data += r.choice([b"Content-Length: 3\r\n", b"Transfer-Encoding: chunked\r\n",
                                      b"Connection: close\r\n", b"X-Y: z\r\n", b": empty\r\n",
                                      b"Content-Length: abc\r\n", b"Transfer-Encoding: gzip\r\n"])
                data += b"\r\n" + r.choice([b"", b"abc", b"3\r\nabc\r\n0\r\n\r\n", b"0\r\n\r\n"])
            out.append([r.choice([0.0, 0.001]), data])
    else:
        # HTTP/2: server preface then frames with arbitrary type / flags / length / stream id
        out.append([0.0, h2_frame(4, 0, 0, b"")])
        for _ in range(r.randint(1, 6)):
            typ = r.choice([0, 1, 1, 1, 2, 3, 4, 5, 6, 7, 8, 9, 10, 0x20, 0xFF])
            flags = r.choice([0, 1, 4, 4, 5, 5, 8, 0x20, 0xFF])
            sid = r.choice([0, 1, 1, 1, 1, 2, 3, 5, 0x7FFFFFFF])
            x = r.random()
            if typ == 1 and x < 0.6:
                # HEADERS with HPACK-encoded junk status values (literal without indexing)
                val = r.choice([b"200", b"", b"abc", b"2 0", b"\xff", b"-1", b"99999999999999999999",
                                b"20\x00"])
                payload = b"\x00\x07:status" + bytes([len(val)]) + val
                if r.random() < 0.3:
                    payload += b"\x00\x01x\x01y"
            elif x < 0.5:
                payload = bytes(r.randrange(256) for _ in range(r.choice([0, 1, 4, 5, 8, 9, 40])))
            else:
                payload = {3: b"\x00\x00\x00\x08", 4: b"\x00\x03\x00\x00\x00\x00", 6: b"12345678",
                           7: b"\x00\x00\x00\x01\x00\x00\x00\x00", 8: b"\x00\x00\x00\x00"}.get(
                    typ, b"\x82")
            fr = h2_frame(typ, flags, sid, payload)
            if r.random() < 0.15:
                fr = fr[:r.randint(1, len(fr))]
            out.append([r.choice([0.0, 0.001]), fr])
    out.append([r.choice([0.002, 0.05, 0.05]), r.choice(["EOF", "EOF", "RESET"])])
    return out


class ScratchFamily(ScenarioFamily):
    chunk = 50

    def generate(self, seed, index, tier):
        r = gen.mk_rng(seed, "c15scratch")
        proto = "h2" if index % 2 else "h1"
        tls = proto == "h2" and r.random() < 0.7
        pool = {"max_connections": 2}
        if proto == "h2":
            pool["http2"] = True
            if not tls:
                pool["http1"] = False
        scheme, port = ("https", 443) if tls else ("http", 80)
        script = scratch_script(r, proto)
        seg = r.choice(["whole", "random", "byte", "segment"])
        if seg == "byte":
            # one byte per read: keep the stream short
            script = [[d, (x[:3000] if isinstance(x, bytes) else x)] for d, x in script]
        ep = {"kind": "raw", "tls": tls, "alpn": ["h2", "http/1.1"],
              "script": script,
              "trigger": r.choice(["data", "data", "open"]) if proto == "h1" else
              r.choice(["data2", "data2", "data2", "data3", "data", "open"])}
        ops = []
        for i in range(r.randint(1, 2)):
            tok = f"x{i}"
            op = {"op": "request", "token": tok, "method": r.choice(["GET", "POST", "HEAD"]),
                  "url": f"{scheme}://a.test/t/{tok}",
                  "consume": r.choice(["all", "all", {"chunks": 1}, "close"]),
                  "timeouts": {"connect": 2.0, "read": 2.0, "write": 2.0, "pool": 2.0}}
            if op["method"] == "POST":
                op["body"] = {"len": r.choice([0, 10, 70000])}
            ops.append(op)
        return {"seed": seed, "exec": "asyncio", "pool": pool,
                "net": {"latency": r.choice(["zero", "fixed"]),
                        "seg": seg,
                        "endpoints": {f"a.test:{port}": ep}},
                "callers": [{"ops": ops}], "epilogue": ["close_pool"],
                "c15": {"stage": "scratch-" + proto}}

    def post(self, res, scn):
        exc_oracle(res, scn)

    def nontrivial(self, res, scn):
        return True


class FaultFamily(Family):
    """Every injected backend exception at every network operation (C05's bases)."""

    chunk = 1

    def __init__(self, name, ex, nq, nt, seam=None):
        self.prop = "C15"
        self.name = name
        self.ex = ex
        self.seam = seam
        self.n_quick, self.n_thorough = nq, nt

    def units(self, tier):
        return self.n_quick if tier == "quick" else self.n_thorough

    def run_scenario(self, scn):
        res = run_scenario(scn, [])
        exc_oracle(res, scn)
        res.violations = list(res.world.violations)
        return res

    def run_unit(self, seed, index, tier):
        from ..core import sub_seed

        u = Unit()
        b = base_scenario(sub_seed(getattr(self, "check_seed", 0), "c15f", index), index, self.ex)
        if self.seam:
            if self.ex == "threads" and b["ctype"] == "stun_h1":
                b = base_scenario(sub_seed(getattr(self, "check_seed", 0), "c15f", index),
                                  index + 1, self.ex)
            b["seam"] = self.seam
        b["epilogue"] = ["close_pool"]
        b["c15"] = {"stage": "backend-fault" + ("-L2" if self.seam else "")}
        if self.ex == "threads":
            b["policy"] = {"mode": "ops", "op_p": 0.5}
            b.pop("sched", None)
        dry = run_scenario(b, [])
        u.add_result(dry, b, "C15", nontrivial=False)
        for e in dry.world.ledger.of("op"):
            n, kind = e[3], e[4]
            nvar = {"connect": 2, "tls": 2, "recv": 3, "send": 2}.get(kind, 0)
            for v in range(nvar):
                s = copy.deepcopy(b)
                s["faults"] = [{"at": n, "kind": "auto", "variant": v}]
                res = self.run_scenario(s)
                u.add_result(res, s, "C15", nontrivial=True, keep_sample=(index % 13 == 0 and v == 0 and n == 3))
        # no fault at all, but the pool is closed under the open response and the caller
        # goes on reading: operations on a stream that has been closed locally
        from .common import _shrink_plan

        s = copy.deepcopy(b)
        op = s["callers"][0]["ops"][0]
        if op["resp"].get("framing") in ("cl", "chunked") and op.get("method", "GET") != "HEAD":
            _shrink_plan(op["resp"], 3000)
            op["resp"]["cutmode"] = "random"
            op["resp"]["gap"] = 0.01
            op["consume"] = {"chunks": 1, "close_pool_midway": True, "more": 3}
            s["callers"] = s["callers"][:1]
            s["epilogue"] = []
            res = self.run_scenario(s)
            u.add_result(res, s, "C15", nontrivial=True)
        return u


class StreamsExcFamily(ScenarioFamily):
    """C12's multiplexed HTTP/2 workload (server resets of single streams, SETTINGS
    changes, PING, early closes, one caller cancelled) judged by the exception oracle:
    whatever reaches a caller is a documented exception."""

    chunk = 30

    def __init__(self, name, nq, nt):
        super().__init__("C15", name, nq, nt)

    def generate(self, seed, index, tier):
        from .c12 import StreamsFamily

        scn = StreamsFamily("x", "asyncio", 0, 0).generate(seed, index, tier)
        scn["c15"] = {"stage": "h2-events"}
        rg = gen.mk_rng(seed, "c15goaway")
        if rg.random() < 0.35:
            # a GOAWAY at any moment with any last-stream-id, also one that disowns
            # streams the server has already answered in part (no server should; the
            # property says 'whatever bytes a server sends')
            n = len(scn["callers"])
            ep = next(iter(scn["net"]["endpoints"].values()))
            when = rg.choice([{"after_headers": rg.randint(1, n)},
                              {"after_headers": rg.randint(1, n),
                               "delay": rg.choice([0.0005, 0.002, 0.01, 0.03, 0.1])},
                              {"t": rg.choice([0.001, 0.01, 0.05])}])
            ep["h2"].setdefault("events", []).append(
                {"when": when, "do": "goaway", "disown": True,
                 "last": rg.choice(["below", "below", "zero", "equal", "above", 1, 1, 3]),
                 "code": rg.choice([0, 0, 1, 2, 11]), "close": rg.random() < 0.5})
            scn["hostile"] = True
            for c in scn["callers"]:
                for op in c["ops"]:
                    plan = op.get("resp") or {}
                    if plan.get("body_len", 0) > 0 and rg.random() < 0.7:
                        # bodies that are still arriving when the GOAWAY is read
                        plan["h2_frame"] = rg.choice([50, 200, 1000])
                        plan["h2_gap"] = rg.choice([0.002, 0.01])
        return scn

    def post(self, res, scn):
        if res.error:
            return          # hangs under SETTINGS changes are C12's findings
        w = res.world
        for key, out in sorted(res.outcomes.items()):
            for rec in (out, out.get("close_exc")):
                if rec and "exc" in rec and not rec.get("documented"):
                    top = (rec.get("mod") or "").split(".")[0]
                    w.violate("C15", "undocumented:%s.%s@h2-events" % (top, rec["exc"]),
                              {"msg": rec.get("msg"), "key": key})
                    return

    def nontrivial(self, res, scn):
        return True


class TraceRaceFamily(ScenarioFamily):
    """Two or three concurrent requests on one HTTP/2 connection whose async 'trace'
    callbacks await at every event, also between the allocation of the stream id and
    the sending of the HEADERS (KF-C15-2)."""

    chunk = 20

    def __init__(self, name, nq, nt):
        super().__init__("C15", name, nq, nt)

    def generate(self, seed, index, tier):
        ct = ["h2tls", "h2pk", "tun_h2", "socks_auth_h2"][index % 4]
        b = base_scenario(seed, base_index(ct, "shared"), "asyncio")      # company "shared"
        b["trace_yields"] = "all"
        for c in b["callers"]:
            c["start"] = 0.0
            for op in c["ops"]:
                if op.get("op") == "request":
                    op["trace"] = True
        b["epilogue"] = ["close_pool"]
        b.pop("probe_reuse", None)
        b["c15"] = {"stage": "h2-trace"}
        return b

    def post(self, res, scn):
        w = res.world
        if res.error:
            return
        for key, out in sorted(res.outcomes.items()):
            if "exc" in out:
                # whatever the symptom (KeyError, LocalProtocolError from h2's stream state
                # machine, a response delivered to the wrong caller): one root cause
                w.violate("C15", "h2-same-stream-id-for-two-requests:awaiting-trace-callback",
                          {"key": key, "exc": out["exc"], "msg": out.get("msg")})
                return

    def nontrivial(self, res, scn):
        return True


class CallerErrorFamily(ScenarioFamily):
    """Invalid requests from the caller give LocalProtocolError (HTTP/1.1; the HTTP/2 path
    does not validate, KF-C03-2)."""

    chunk = 50

    def generate(self, seed, index, tier):
        r = gen.mk_rng(seed, "c15caller")
        op = gen_request(r, 0, "http", "a.test", False)
        kind = r.choice(["illegal-head", "body-longer-than-content-length",
                         "body-shorter-than-content-length"])
        if kind == "illegal-head":
            make_illegal(r, op)
        else:
            n = r.randint(1, 300)
            op["method"] = "POST"
            decl = n - r.randint(1, n) if kind.startswith("body-longer") else n + r.randint(1, 50)
            op["body"] = {"len": n, "chunks": gen.gen_chunks(r, n), "oneshot": True}
            op["headers"] = [h for h in op["headers"]
                             if h[0].lower() not in ("content-length", "transfer-encoding")]
            op["headers"].append(["Content-Length", str(decl)])
        op["caller_error"] = kind
        op2 = gen_request(r, 1, "http", "a.test", False)
        return {"seed": seed, "exec": "asyncio", "pool": {"max_connections": 2},
                "net": {"latency": "zero", "seg": "whole",
                        "endpoints": {"a.test:80": {"kind": "origin"}}},
                "callers": [{"ops": [op, op2]}], "epilogue": ["close_pool"],
                "c15": {"stage": "caller-error"}}

    def post(self, res, scn):
        exc_oracle(res, scn, caller_error=True)

    def nontrivial(self, res, scn):
        return True


class ProxyReplyFamily(ScenarioFamily):
    """Every kind of proxy / SOCKS reply (the C11 generator), judged by exception class."""

    chunk = 50

    def generate(self, seed, index, tier):
        from .c11 import ProxyFamily

        scn = ProxyFamily("x", "asyncio", 0, 0).generate(seed, index, tier)
        scn["c15"] = {"stage": "proxy-reply-" + scn["c11"]["kind"]}
        scn["hostile"] = True
        return scn

    def post(self, res, scn):
        exc_oracle(res, scn)

    def nontrivial(self, res, scn):
        return True


register("C15", {
    "level": "exploration",
    "rule": "(a) valid conversations of all 11 connection types passed through a corrupting peer: "
            "bit flips, byte replacement, insertion, deletion, duplication, EOF, reset and "
            "garbage-then-EOF at every offset of the server byte stream for short conversations, "
            "sampled offsets otherwise; (b) from-scratch byte streams: HTTP/1.1 junk heads and "
            "framings, HTTP/2 frames of arbitrary type / flags / length / stream id with HPACK and "
            ":status junk, truncated frames, each ending in EOF or reset; (c) every backend "
            "exception at every network operation index (asyncio and threads); (d) invalid "
            "requests from the caller; (e) proxy replies; at L2 the native exceptions of anyio, trio "
            "and the socket / ssl modules (a failed handshake is an SSLError, an EOF or a reset); "
            "every other HTTP/2 corruption base multiplexes 2-3 streams; (f) C12's multiplexed "
            "workload (stream resets, SETTINGS changes, early closes, one cancelled caller) "
            "and concurrent requests with awaiting trace callbacks; oracle = class of every exception reaching the caller "
            "(request call, body reads, close) is a documented httpcore exception, coarse cause "
            "match, termination; all runs but the dry runs are non-trivial",
    "assumptions": ["the L2 families run the real AnyIOBackend and TrioBackend (through "
                    "AutoBackend) and SyncBackend above fakes of anyio's byte streams / "
                    "TLSStream.wrap, of trio's SocketStream / SSLStream and of socket / SSLSocket, "
                    "so their exception maps are exercised with the native exceptions (OSError "
                    "subclasses, socket.timeout, ssl.SSLError, anyio's and trio's Broken/Closed "
                    "resource errors, EndOfStream, TimeoutError, TooSlowError); the sync "
                    "TLSinTLSStream is not exercised"],
}, [CorruptFamily(44, 440), ScratchFamily("C15", "scratch-async", 3000, 60000),
    FaultFamily("backend-faults-async", "asyncio", 55, 550),
    FaultFamily("backend-faults-threads", "threads", 22, 220),
    FaultFamily("native-exceptions-async-L2", "asyncio", 33, 330, seam="L2"),
    FaultFamily("native-exceptions-threads-L2", "threads", 22, 220, seam="L2"),
    FaultFamily("native-exceptions-trio-L2", "trio", 22, 220, seam="L2"),
    StreamsExcFamily("h2-events-async", 1200, 24000),
    TraceRaceFamily("h2-trace-race-async", 100, 2000),
    CallerErrorFamily("C15", "caller-errors-async", 600, 6000),
    ProxyReplyFamily("C15", "proxy-replies-async", 1500, 30000)])

# C06's corrupted-peer family lives here because c05.py cannot import this module (cycle)
from . import _FAMS  # noqa: E402

_FAMS["C06"].append(CorruptLeakFamily(44, 440))
