"""C01 — each response belongs to its own request (no cross-talk, no desync)."""
from .. import oracles
from . import register
from .common import PoolMixFamily


def _posts(res):
    oracles.token_oracle(res, "C01")
    oracles.exchange_order_oracle(res, "C01")


FAMS = [
    PoolMixFamily("C01", "poolmix-async-clean", 2500, 40000,
                  {"exec": "asyncio", "p_srv_idle_close": 0.1}, [], [_posts]),
    PoolMixFamily("C01", "poolmix-async-faulty", 2500, 40000,
                  {"exec": "asyncio", "faulty": True, "cancels": True,
                   "p_srv_idle_close": 0.1, "p_h2_events": 0.3}, [], [_posts]),
    PoolMixFamily("C01", "poolmix-threads", 600, 15000,
                  {"exec": "threads", "p_srv_idle_close": 0.1, "max_callers": 4, "protos": ["h1"]},
                  [], [_posts]),
    PoolMixFamily("C01", "poolmix-threads-faulty", 400, 10000,
                  {"exec": "threads", "faulty": True, "max_callers": 4, "protos": ["h1"]}, [], [_posts]),
]

register("C01", {
    "level": "exploration",
    "rule": "seeded swarm over concurrent pool workloads (2-5 callers, 1-4 requests each, "
            "1-3 origins, HTTP/1.1 / HTTP/2 / mixed ALPN, direct / HTTP(S) proxy / SOCKS5, "
            "all response framings, early closes, partial reads, network faults, "
            "cancellations; asyncio fifo+shuffle and pre-emptive threads); a run is "
            "non-trivial if >=2 callers ran or a fault fired; distinct = distinct "
            "SHA-256 of the full event log",
    "assumptions": ["peers are executable models (independent HTTP/1.1 parser, h2 in "
                    "server role + raw frame ledger)", "seam L1: simulated network backend "
                    "behind the public network_backend= argument"],
}, FAMS)
