"""C01 — each response belongs to its own request (no cross-talk, no desync)."""
from .. import oracles
from . import register
from .common import PoolMixFamily


def _posts(res):
    oracles.token_oracle(res, "C01")
    oracles.exchange_order_oracle(res, "C01")
    oracles.decoded_request_oracle(res, "C01")


FAMS = [
    PoolMixFamily("C01", "poolmix-async-clean", 2500, 40000,
                  {"exec": "asyncio", "p_srv_idle_close": 0.1, "p_caller_error": 0.2,
                   "resp_opts": {"p_early": 0.25}}, [], [_posts]),
    PoolMixFamily("C01", "poolmix-async-faulty", 2500, 40000,
                  {"exec": "asyncio", "faulty": True, "cancels": True,
                   "p_srv_idle_close": 0.1, "p_h2_events": 0.3,
                   "resp_opts": {"p_early": 0.25}}, [], [_posts]),
    PoolMixFamily("C01", "poolmix-threads", 600, 15000,
                  {"exec": "threads", "p_srv_idle_close": 0.1, "max_callers": 4, "protos": ["h1"]},
                  [], [_posts]),
    PoolMixFamily("C01", "poolmix-threads-faulty", 400, 10000,
                  {"exec": "threads", "faulty": True, "max_callers": 4, "protos": ["h1"]}, [], [_posts]),
]

def _late():
    # every cancellation point of one caller on a shared HTTP/2 connection (sweep engine
    # of C05), followed by further requests of its companions on the same connection:
    # what the server decodes and answers afterwards must still be each caller's own
    import copy

    from .. import gen
    from .c05 import SweepFamily, base_index, base_scenario

    class SharedSweep(SweepFamily):
        def make_base(self, bseed, bi):
            ct = ["h2tls", "h2pk", "tun_h2", "socks_auth_h2"][bi % 4]
            b = base_scenario(bseed, base_index(ct, "shared"), self.ex)     # company "shared"
            r = gen.mk_rng(bseed, "c01shared")
            for cfg in b["net"]["endpoints"].values():
                if "h2" in cfg:
                    cfg["h2"]["settings"]["max_concurrent_streams"] = 100
            for ci, c in enumerate(b["callers"]):
                for op in c["ops"]:
                    op["headers"] = [["x-sel", r.choice(["s0", "s1"])], ["X-Grp", "g0"]]
                if ci > 0:
                    first = c["ops"][0]
                    for k in (1, 2):
                        op = copy.deepcopy(first)
                        op["token"] = first["token"] + "abc"[k]
                        op["url"] = first["url"].rsplit("/", 1)[0] + "/" + op["token"]
                        op["resp"] = gen.gen_resp_plan(r, op["token"].encode(), op["method"],
                                                       {"body_len": 30, "p_interim": 0.0,
                                                        "p_conn_close": 0.0, "p_http10": 0.0,
                                                        "framings": ["cl"]})
                        op["headers"] = [["x-sel", r.choice(["s0", "s1"])], ["X-Grp", "g0"]]
                        c["ops"] += [{"op": "sleep", "d": r.choice([0.02, 0.05])}, op]
            b["epilogue"] = ["settle", "close_pool"]
            b.pop("probe_reuse", None)
            return b

        def observers(self, scn):
            return []

        def run_scenario(self, scn):
            from ..scenario import run_scenario

            res = run_scenario(scn, [])
            if not res.error:
                _posts(res)
            res.violations = list(res.world.violations)
            return res

    FAMS.append(SharedSweep("C01", "shared-h2-cancel-sweep", 12, 120, kinds=("scope",), faults=False))


_late()

register("C01", {
    "level": "exploration",
    "rule": "seeded swarm over concurrent pool workloads (2-5 callers, 1-4 requests each, "
            "1-3 origins, HTTP/1.1 / HTTP/2 / mixed ALPN, direct / HTTP(S) proxy / SOCKS5, "
            "all response framings, early closes, partial reads, network faults, "
            "cancellations; asyncio fifo+shuffle and pre-emptive threads); a run is "
            "non-trivial if >=2 callers ran or a fault fired; distinct = distinct "
            "SHA-256 of the full event log; plus a sweep of every cancellation point of one "
            "caller on a shared HTTP/2 connection whose companions keep using it; oracles: "
            "token echo, exchange order per HTTP/1.1 wire, and 'the request each server "
            "decoded is its caller's own' (method, target, pseudo-headers, header fields)",
    "assumptions": ["peers are executable models (independent HTTP/1.1 parser, h2 in "
                    "server role + raw frame ledger)", "seam L1: simulated network backend "
                    "behind the public network_backend= argument"],
}, FAMS)
