"""C03 — requests are serialised faithfully on the wire."""
from __future__ import annotations

import hashlib

from .. import gen
from ..scenario import reqbody_for
from . import register
from .common import ScenarioFamily
from .c10 import DEFAULT, parse_url
from .c11 import host_first

METHODS = ["GET", "GET", "POST", "PUT", "DELETE", "PATCH", "OPTIONS", "HEAD", "PROPFIND",
           "M-SEARCH", "x_custom!"]
NAME_CH = "abcdefghijklmnopqrstuvwxyzABCDEFGHIJKLMNOPQRSTUVWXYZ0123456789-_"
VAL_CH = NAME_CH + " \t!#$%&'()*+,./:;<=>?@[]^`{|}~\""
H2_FORBIDDEN = (b"connection", b"keep-alive", b"proxy-connection", b"upgrade", b"te")


def rnd_name(r):
    return "X-" + "".join(r.choice(NAME_CH) for _ in range(r.randint(1, 12)))


def rnd_value(r):
    n = r.randint(0, 30)
    s = "".join(r.choice(VAL_CH) for _ in range(n)).strip(" \t")
    return s


def gen_request(r, i, scheme, host, h2):
    tok = f"q{i}"
    method = r.choice(METHODS)
    hdrs = []
    for _ in range(r.randint(0, 5)):
        k = rnd_name(r)
        hdrs.append([k, rnd_value(r)])
        if r.random() < 0.2:
            hdrs.append([k.swapcase() if r.random() < 0.5 else k, rnd_value(r)])
    if not h2 and r.random() < 0.2:
        hdrs.append([r.choice(["Connection", "connection"]), "keep-alive"])
    op = {"op": "request", "token": tok, "method": method, "headers": hdrs,
          "url": f"{scheme}://{host}/t/{tok}/" + "".join(r.choice(NAME_CH + "/;=.~%")
                                                        for _ in range(r.randint(0, 20)))
                 + ("?" + "".join(r.choice(NAME_CH + "&=+") for _ in range(r.randint(1, 15)))
                    if r.random() < 0.5 else ""),
          "token_header": True}
    x = r.random()
    if x < 0.15:
        op["target"] = r.choice([b"*", b"/other/path?x=1",
                                 f"{scheme}://{host}/abs/{tok}".encode()])
    # Host / Content-Length / Transfer-Encoding given by the caller or left to httpcore
    if r.random() < 0.25:
        hdrs.insert(r.randint(0, len(hdrs)), [r.choice(["Host", "host", "HOST"]),
                                             r.choice([host, "other.example", host + ":1234"])])
    body = None
    if method not in ("GET", "HEAD") or r.random() < 0.15:
        n = gen.gen_body_len(r, big=r.random() < 0.2)
        x = r.random()
        if x < 0.35:
            body = {"len": n}
        else:
            chunks = gen.gen_chunks(r, n)
            for _ in range(r.choice([0, 0, 1, 2])):
                chunks.insert(r.randint(0, len(chunks)), 0)
            body = {"len": n, "chunks": chunks, "oneshot": r.random() < 0.5}
        y = r.random()
        if y < 0.2:
            hdrs.append([r.choice(["Content-Length", "content-length"]), str(n)])
        elif y < 0.35 and body.get("chunks") is not None:
            hdrs.append([r.choice(["Transfer-Encoding", "transfer-encoding"]), "chunked"])
    if body is not None:
        op["body"] = body
    op["resp"] = gen.gen_resp_plan(r, tok.encode(), method,
                                   {"body_len": r.choice([0, 5, 100]), "p_interim": 0.0,
                                    "p_conn_close": 0.1, "p_http10": 0.0, "p_think": 0.1,
                                    "framings": ["cl", "chunked"]})
    op["timeouts"] = {"connect": 5.0, "read": 5.0, "write": 5.0, "pool": 5.0}
    return op


ILLEGAL = [b"\r", b"\n", b"\x00", b"\r\nX-Injected: 1"]


def make_illegal(r, op):
    """Turn a legal request into a definitely illegal one."""
    where = r.choice(["method", "target", "name", "value", "method-space", "target-space",
                      "name-space"])
    bad = r.choice(ILLEGAL).decode("latin-1")
    if where == "method":
        op["method"] = op["method"][:1] + bad + op["method"][1:]
    elif where == "method-space":
        op["method"] = "GE T"
    elif where == "target":
        op["target"] = ("/t/%s/a%sb" % (op["token"], bad)).encode("latin-1")
    elif where == "target-space":
        op["target"] = ("/t/%s/a b" % op["token"]).encode()
    elif where == "name":
        op["headers"].append(["X-Bad" + bad + "Name", "v"])
    elif where == "name-space":
        op["headers"].append(["X Bad", "v"])
    else:
        op["headers"].append(["X-Bad", "a" + bad + "b"])
    op["illegal"] = where
    return op


class SerialiseFamily(ScenarioFamily):
    chunk = 30

    def __init__(self, name, ex, nq, nt, modes=None):
        super().__init__("C03", name, nq, nt)
        self.ex = ex
        self.modes = modes or ["plain", "plain", "plain", "double-assign", "goaway", "forward"]

    def generate(self, seed, index, tier):
        r = gen.mk_rng(seed, "c03")
        mode = self.modes[index % len(self.modes)]
        h2 = mode in ("goaway", "concurrent") or (mode == "plain" and r.random() < 0.45)
        tls = h2 or mode == "double-assign" or r.random() < 0.2
        if h2 and mode == "plain" and r.random() < 0.3:
            tls = False
        if mode == "forward":
            h2 = tls = False
        scheme, port = ("https", 443) if tls else ("http", 80)
        host = "a.test"
        pool = {"max_connections": r.choice([1, 2, 4])}
        ep = {"kind": "origin", "tls": tls}
        if h2 or mode == "double-assign":
            pool["http2"] = True
        if h2 and not tls:
            pool["http1"] = False
        if tls:
            ep["alpn"] = ["h2", "http/1.1"] if h2 else ["http/1.1"]
        if h2:
            st = {"max_concurrent_streams": r.choice([1, 10, 100])}
            if r.random() < 0.6:
                st["initial_window_size"] = r.choice([1, 10, 1000, 16384, 65535])
            if r.random() < 0.3:
                st["max_frame_size"] = r.choice([16384, 20000, 65536])
            ep["h2"] = {"settings": st, "wu": r.choice(["eager", "tiny", "late", "stream_first",
                                                       "conn_first", "batched"]),
                        "wu_step": r.choice([1, 7, 100, 5000])}
        callers = []
        fwd = None
        if mode == "forward":
            # through a forwarding HTTP proxy: the same request in absolute-form, the
            # proxy's own headers first (those the caller overrides dropped)
            ph = []
            for _ in range(r.randint(0, 3)):
                ph.append([rnd_name(r), rnd_value(r)])
            auth = ["user", "p:ss"] if r.random() < 0.4 else None
            pool["proxy"] = {"url": "http://px.test:3128", "headers": ph}
            if auth:
                pool["proxy"]["auth"] = auth
            if r.random() < 0.3:
                pool["proxy"]["style"] = "legacy"
            fwd = {"headers": ph, "auth": auth}
            ops = []
            for i in range(r.randint(1, 3)):
                op = gen_request(r, i, scheme, host, False)
                op.pop("target", None)
                if ph and r.random() < 0.4:
                    # the caller overrides one of the proxy's headers (any case)
                    k = r.choice(ph)[0]
                    op["headers"].insert(r.randint(0, len(op["headers"])),
                                         [k.swapcase() if r.random() < 0.5 else k, rnd_value(r)])
                ops.append(op)
            callers = [{"ops": ops}]
        elif mode == "plain":
            ops = []
            for i in range(r.randint(1, 4)):
                op = gen_request(r, i, scheme, host, h2)
                if r.random() < 0.15:
                    make_illegal(r, op)
                ops.append(op)
            callers = [{"ops": ops}]
        elif mode == "concurrent":
            # 2-4 callers with 1-3 requests each, with and without bodies, multiplexed on
            # one HTTP/2 connection: whatever another stream does between two steps of a
            # request, each request is serialised as its own caller gave it
            pool["max_connections"] = 1
            ep["h2"]["settings"] = {"max_concurrent_streams": r.choice([2, 3, 100])}
            ep["h2"]["wu"] = "eager"
            for ci in range(r.randint(2, 4)):
                ops = []
                for oi in range(r.randint(1, 3)):
                    for _ in range(50):
                        op = gen_request(r, ci * 10 + oi, scheme, host, True)
                        if op.get("body") is None or op["body"]["len"] <= 3000:
                            break
                    ops.append(op)
                callers.append({"start": r.choice([0.0, 0.0, 0.001, 0.01]), "ops": ops})
        elif mode == "double-assign":
            # http2 enabled, server selects HTTP/1.1: the requests assigned to the
            # connecting connection beyond the first are transparently re-queued
            for ci in range(r.randint(2, 4)):
                callers.append({"start": 0.0, "ops": [gen_request(r, ci, scheme, host, False)]})
        else:
            # GOAWAY naming a last-stream-id below some in-flight streams
            n = r.randint(2, 4)
            for ci in range(n):
                op = gen_request(r, ci, scheme, host, True)
                op["resp"]["think"] = 0.05
                callers.append({"start": 0.0, "ops": [op]})
            ep["h2"]["settings"]["max_concurrent_streams"] = 100
            ep["h2"]["events"] = [{"when": {"after_headers": r.randint(1, n)},
                                   "do": "goaway", "last": r.choice(["below", "below", "equal", "zero"]),
                                   "close": False}]
        if h2 and r.random() < 0.3:
            # large bodies need many scheduler steps with a 1-byte window: keep them small
            pass
        scn = {"seed": seed, "exec": self.ex, "pool": pool,
               "net": {"latency": r.choice(["zero", "fixed", "small"]),
                       "seg": r.choice(["whole", "random", "segment"]),
                       "endpoints": {f"{host}:{port}": ep}},
               "callers": callers, "epilogue": ["close_pool"],
               "c03": {"mode": mode, "h2": h2, "forward": fwd}}
        if fwd is not None:
            scn["net"]["endpoints"]["px.test:3128"] = {"kind": "http_proxy"}
        if h2:
            w1 = ep["h2"]["settings"].get("initial_window_size", 65535)
            re_ = gen.mk_rng(seed, "c03early")
            for c in callers:
                for op in c["ops"]:
                    if op.get("body") and mode in ("plain", "concurrent") and re_.random() < 0.3:
                        # the server sends its response head before it has received the
                        # request body: the body must still arrive in full
                        op["resp"]["h2_early_head"] = True
                    b = op.get("body")
                    if b and w1 <= 10 and b["len"] > 300:
                        op["body"] = {"len": 300} if b.get("chunks") is None else \
                            {"len": 300, "chunks": [100, 0, 200], "oneshot": b.get("oneshot", True)}
                        for h in op["headers"]:
                            if h[0].lower() == "content-length":
                                h[1] = "300"
        if self.ex == "threads":
            scn["policy"] = {"mode": "ops", "op_p": 0.5}
        return scn

    def post(self, res, scn):
        serialise_oracle(res, scn)

    def nontrivial(self, res, scn):
        return True


def expected_headers(call, h2):
    op = call["op"]
    hs = [(bytes(k), bytes(v)) for k, v in call["headers"]]
    names = {k.lower() for k, v in hs}
    scheme, host, port = parse_url(op["url"])
    if b"host" not in names:
        hb = (("[%s]" % host) if ":" in host else host).encode()
        hv = hb if port == DEFAULT[scheme] else b"%s:%d" % (hb, port)
        hs = [(b"Host", hv)] + hs
    body = op.get("body")
    if body is not None and b"content-length" not in names and b"transfer-encoding" not in names:
        if body.get("chunks") is None:
            hs = hs + [(b"Content-Length", b"%d" % len(call["body"]))]
        else:
            hs = hs + [(b"Transfer-Encoding", b"chunked")]
    return hs


def target_of(op):
    if op.get("target") is not None:
        return bytes(op["target"])
    u = op["url"]
    rest = u.split("://", 1)[1]
    i = rest.find("/")
    return rest[i:].encode() if i != -1 else b"/"


def serialise_oracle(res, scn):
    w = res.world
    led = w.ledger
    h1 = {}
    for e in led.of("srv_req"):
        h1.setdefault(e[6], []).append(e)
    h2r = {}
    for e in led.of("h2_req"):
        h2r.setdefault(e[6], []).append(e)
    heads_h1 = {}
    for e in led.of("srv_head"):
        heads_h1.setdefault(e[6], []).append(e)
    opens_h2 = led.of("h2_stream_open")
    for e in led.of("srv_bad"):
        w.violate("C03", "server-received-malformed-request", {"why": e[5]})
        return
    for key, out in sorted(res.outcomes.items()):
        tok = out["token"]
        call = w.calls[tok]
        op = call["op"]
        ho = out.get("_hdr_obj")
        if ho is not None and list(ho[0]) != ho[1]:
            # the caller's own header list came back changed: the next request built from
            # it will not be the one the caller spells
            w.violate("C03", "caller-header-list-modified",
                      {"token": tok, "before": ho[1], "after": list(ho[0])})
            return
        if op.get("illegal"):
            seen = tok in h1 or tok in h2r or tok in heads_h1
            # any byte of it on any wire?
            wrote = [x for x in led.of("c2s") if x[6] == tok and
                     (b"/t/" + tok) in x[7]]
            proto = "h2" if scn["c03"]["h2"] else "h1"
            if out.get("exc") != "LocalProtocolError":
                # one root cause per protocol: the head is not validated before sending
                w.violate("C03", "%s:illegal-head-not-rejected:%s" % (
                    proto, out.get("exc") or "sent"), {"token": tok, "where": op["illegal"]})
                if proto == "h2" and "exc" not in out:
                    continue
                return
            if seen or wrote:
                w.violate("C03", "%s:illegal-head-partly-written" % proto,
                          {"token": tok, "where": op["illegal"]})
                return
            continue
        attempts = h1.get(tok, []) + h2r.get(tok, [])
        if "exc" in out and out["exc"] in ("LocalProtocolError",) and not w.stats_faulty:
            w.violate("C03", "legal-request-rejected:%s" % ("h2" if scn["c03"]["h2"] else "h1"),
                      {"token": tok, "msg": out.get("msg"), "method": op["method"],
                       "headers": op["headers"]})
            return
        body = call["body"]
        digest = hashlib.sha256(body).hexdigest()[:16]
        fwd = scn["c03"].get("forward")
        for e in h1.get(tok, []):
            method, target, headers, blen, bsha = e[7], e[8], list(e[9]), e[10], e[11]
            want_h = host_first(expected_headers(call, False))
            if method != op["method"].encode():
                w.violate("C03", "h1:method-altered", {"got": method})
                return
            if fwd is not None:
                import base64

                ph = [(k.encode(), v.encode()) for k, v in fwd["headers"]]
                if fwd["auth"]:
                    cred = base64.b64encode(":".join(fwd["auth"]).encode())
                    ph = [(b"Proxy-Authorization", b"Basic " + cred)] + ph
                over = {k.lower() for k, v in want_h}
                want_h = host_first([(k, v) for k, v in ph if k.lower() not in over] + want_h)
                if target != op["url"].encode():
                    w.violate("C03", "h1:forward-target-altered" + _params(target, op["url"].encode()),
                              {"got": target, "want": op["url"]})
                    return
            elif target != target_of(op):
                w.violate("C03", "h1:target-altered" + _params(target, target_of(op)),
                          {"got": target, "want": target_of(op)})
                if not _params(target, target_of(op)):
                    return
            if host_first(headers) != want_h:
                w.violate("C03", "h1:headers-altered", {"got": headers, "want": want_h})
                return
            if (blen, bsha) != (len(body), digest):
                w.violate("C03", "h1:body-altered" + _resend(tok, h1, h2r),
                          {"got_len": blen, "want_len": len(body), "oneshot": (op.get("body") or {}).get("oneshot")})
                return
        for e in h2r.get(tok, []):
            headers, blen, bsha, end_on_headers = list(e[7]), e[8], e[9], e[10]
            eh = expected_headers(call, True)
            authority = [v for k, v in eh if k.lower() == b"host"][0]
            scheme = parse_url(op["url"])[0].encode()
            want_h = [(b":method", op["method"].encode()), (b":authority", authority),
                      (b":scheme", scheme), (b":path", target_of(op))] + [
                (k.lower(), v) for k, v in eh if k.lower() not in (b"host", b"transfer-encoding")]
            if headers[:4] != want_h[:4] and headers[:3] == want_h[:3] and \
                    _params(headers[3][1], want_h[3][1]):
                w.violate("C03", "h2:target-altered" + _params(headers[3][1], want_h[3][1]),
                          {"got": headers[3], "want": want_h[3]})
                headers = want_h[:4] + headers[4:]
            if headers != want_h:
                w.violate("C03", "h2:headers-altered", {"got": headers, "want": want_h})
                return
            has_body_headers = any(k.lower() in (b"content-length", b"transfer-encoding") for k, v in eh)
            if end_on_headers != (not has_body_headers):
                w.violate("C03", "h2:end-stream-flag-wrong", {"end_on_headers": end_on_headers})
                return
            if (blen, bsha) != (len(body), digest):
                w.violate("C03", "h2:body-altered" + _resend(tok, h1, h2r),
                          {"got_len": blen, "want_len": len(body),
                           "oneshot": (op.get("body") or {}).get("oneshot")})
                return
        if "exc" not in out and not attempts:
            w.violate("C03", "response-without-request-on-the-wire", {"token": tok})
            return
        if "exc" in out and not w.stats_faulty:
            w.violate("C03", "legal-request-failed:%s" % out["exc"], {"msg": out.get("msg")})
            return
    for e in led.of("h2_srv_error"):
        w.violate("C03", "h2-server-rejected-client-frames:%s" % e[4], {"msg": e[5]})
        return


def _params(got, want):
    """':path-params-dropped' if `got` is `want` with the ;parameters of the last path
    segment removed (urlparse semantics; C19's territory)."""
    path, q, query = want.partition(b"?")
    i = path.rfind(b"/")
    seg = path[i + 1:]
    if b";" in seg:
        stripped = path[:i + 1] + seg.split(b";", 1)[0] + q + query
        if stripped == got:
            return ":path-params-dropped"
    return ""


def _resend(tok, h1, h2r):
    n = len(h1.get(tok, [])) + len(h2r.get(tok, []))
    return ":on-resend" if n > 1 else ""


register("C03", {
    "level": "exploration",
    "rule": "generated requests (standard and custom method tokens; origin-form, absolute-form "
            "and '*' targets via the target extension; header lists of any order/case/duplicates "
            "with or without Host / Content-Length / Transfer-Encoding; bodies as bytes or as "
            "re-iterable / one-shot iterators with arbitrary chunking incl. empty chunks) on "
            "HTTP/1.1 and HTTP/2 (server windows down to 1 byte, frame sizes, all WINDOW_UPDATE "
            "policies), on first use and on reuse, through a forwarding proxy with proxy headers, "
            "credentials and caller overrides (the header list object the caller passes must "
            "come back unchanged), plus transparent re-sends (double assignment "
            "on an HTTP/2-capable connection that turns out HTTP/1.1; GOAWAY below the stream id) "
            "and definitely-illegal heads (CR, LF, NUL, space in method / target / header name / "
            "value), plus 2-4 callers whose requests with and without bodies are multiplexed on "
            "one HTTP/2 connection; oracle = independent HTTP/1.1 parser and raw HTTP/2 frame ledger; all runs "
            "non-trivial",
    "assumptions": ["legal = RFC token methods/names, visible-ASCII targets and values without "
                    "surrounding whitespace; the grey zone (obs-text, surrounding whitespace) is "
                    "not generated"],
}, [SerialiseFamily("serialise-async", "asyncio", 3000, 60000),
    SerialiseFamily("serialise-threads", "threads", 600, 12000),
    SerialiseFamily("serialise-concurrent-async", "asyncio", 1200, 24000, modes=["concurrent"])])
