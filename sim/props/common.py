"""Shared family machinery: the concurrent pool workload generator ("poolmix") and a
generic scenario family."""
from __future__ import annotations

from .. import gen, oracles
from ..core import sub_seed
from ..runner import Family, Unit
from ..scenario import run_scenario


class StateSampler:
    """Reach measure: abstract pool states seen at quiescent points."""

    def setup(self, world, pool):
        self.pool = pool
        self.states = set()

    def on_quiescent(self):
        conns = self.pool.connections
        st = tuple(sorted(c.info().split(", ")[-2] if ", " in c.info() else c.info()
                          for c in conns))
        q = oracles.pool_queue(self.pool)
        self.states.add((st, len(q) if q is not None else -1))

    def post(self, res):
        res.info["pool_states"] = self.states


class ScenarioFamily(Family):
    """Family whose unit is: generate one scenario from the seed, run it, apply the
    oracles."""

    chunk = 25

    def __init__(self, prop, name, n_quick, n_thorough):
        self.prop = prop
        self.name = name
        self.n_quick = n_quick
        self.n_thorough = n_thorough

    def units(self, tier):
        return self.n_quick if tier == "quick" else self.n_thorough

    def generate(self, seed, index, tier):
        raise NotImplementedError

    def observers(self, scn):
        return []

    def post(self, res, scn):
        pass

    def nontrivial(self, res, scn):
        return None

    def run_scenario(self, scn):
        res = run_scenario(scn, self.observers(scn))
        self.post(res, scn)
        res.violations = list(res.world.violations)
        return res

    def run_unit(self, seed, index, tier):
        u = Unit()
        scn = self.generate(seed, index, tier)
        res = self.run_scenario(scn)
        u.add_result(res, scn, self.prop, nontrivial=self.nontrivial(res, scn),
                     keep_sample=(index % 50 == 0))
        return u


# ---------------------------------------------------------------------------
# poolmix generator


def gen_poolmix(seed, tier, o):
    """o: options dict:
      exec: asyncio|threads ; faulty: bool ; cancels: bool ; protos: list of
      ("h1"|"h2"|"mix"); proxies: list ; max_callers ; single_origin ; h2_events: bool
    """
    r = gen.mk_rng(seed, "poolmix")
    rsel = gen.mk_rng(seed, "poolmix-sel")
    ex = o.get("exec", "asyncio")
    proto = r.choice(o.get("protos", ["h1", "h1", "h2", "mix"]))
    proxy_kind = r.choice(o.get("proxies", ["none"] * 6 + ["http", "https", "socks", "http"]))
    n_callers = r.randint(o.get("min_callers", 2), o.get("max_callers", 5))
    n_orig = 1 if o.get("single_origin") else r.choice([1, 2, 2, 3])
    tls = proto in ("h2", "mix") or r.random() < 0.3
    if proto == "h2" and r.random() < 0.2 and proxy_kind == "none":
        tls = False  # prior knowledge
    hosts = [f"h{i}.test" for i in range(n_orig)]
    scheme = "https" if tls else "http"
    pool = {
        "max_connections": r.choice(o.get("max_connections", [1, 1, 2, 2, 3, 4, None])),
        "max_keepalive_connections": r.choice(o.get("max_keepalive", [None, None, 0, 1, 2])),
        "keepalive_expiry": r.choice(o.get("expiries", [None, None, 0.0, 0.05, 5.0])),
    }
    if proto in ("h2", "mix"):
        pool["http2"] = True
        if proto == "h2" and not tls:
            pool["http1"] = False
    eps = {}
    for i, h in enumerate(hosts):
        cfg = {"kind": "origin", "tls": tls}
        if tls:
            if proto == "h2":
                cfg["alpn"] = ["h2", "http/1.1"]
            elif proto == "mix":
                cfg["alpn"] = ["h2", "http/1.1"] if (i % 2 == 0) else ["http/1.1"]
            else:
                cfg["alpn"] = ["http/1.1"]
        if proto in ("h2", "mix"):
            st = {}
            if r.random() < 0.7:
                st["max_concurrent_streams"] = r.choice(o.get("h2_mcs", [1, 2, 3, 10, 100, 250]))
            if r.random() < 0.3:
                st["initial_window_size"] = r.choice([1000, 16384, 65535, 200000])
            if r.random() < 0.2:
                st["max_frame_size"] = r.choice([16384, 32768, 65536])
            cfg["h2"] = {"settings": st,
                         "wu": r.choice(["eager", "eager", "tiny", "late", "stream_first",
                                         "conn_first", "batched"]),
                         "interleave": r.choice(["random", "seq"])}
            if r.random() < o.get("p_h2_events", 0.0):
                # graceful shutdowns and stream resets while responses are open
                evs = []
                for _ in range(r.choice([1, 1, 2])):
                    when = {"after_headers": r.randint(1, 4)}
                    if r.random() < 0.5:
                        when["delay"] = r.choice([0.001, 0.01, 0.05])
                    if r.random() < 0.7:
                        evs.append({"when": when, "do": "goaway",
                                    "last": r.choice(["equal", "equal", "below", "above"]),
                                    "close": r.random() < 0.5})
                    else:
                        evs.append({"when": when, "do": "rst", "nth": r.randint(0, 2),
                                    "code": r.choice([0, 7, 8])})
                cfg["h2"]["events"] = evs
        if r.random() < o.get("p_srv_idle_close", 0.0):
            cfg["keepalive_timeout"] = r.choice([0.01, 0.1, 1.0])
            if rsel.random() < 0.4:
                cfg["idle_408"] = True
        eps[f"{h}:{443 if tls else 80}"] = cfg
    px = None
    if proxy_kind == "http":
        eps["px.test:8080"] = {"kind": "http_proxy"}
        px = {"url": "http://px.test:8080"}
        if r.random() < 0.5:
            px["auth"] = ["user", "pass"]
        if r.random() < 0.3:
            px["style"] = "legacy"
    elif proxy_kind == "https":
        eps["spx.test:8443"] = {"kind": "http_proxy", "tls": True}
        px = {"url": "https://spx.test:8443"}
    elif proxy_kind == "socks":
        auth = ["su", "sp"] if r.random() < 0.5 else None
        eps["sk.test:1080"] = {"kind": "socks", "auth": auth}
        px = {"url": "socks5://sk.test:1080"}
        if auth:
            px["auth"] = auth
        if r.random() < 0.3:
            px["style"] = "legacy"
    if px is not None:
        pool["proxy"] = px
    net = {
        "latency": r.choice(gen.LATENCIES),
        "seg": r.choice(gen.SEGS),
        "close_latency": r.choice([0.0, 0.0, 0.001, 0.3]),
        "endpoints": eps,
    }
    faulty = o.get("faulty", False)
    if faulty:
        allk = o.get("fault_kinds") or ["read_error", "write_error", "eof", "connect_error",
                                        "tls_error", "read_timeout", "write_timeout",
                                        "connect_timeout"]
        kinds = r.sample(allk, min(len(allk), r.randint(1, 3)))
        net["fault_rates"] = {k: r.choice(o.get("fault_rates", [0.01, 0.03, 0.08])) for k in kinds}
    if o.get("retries"):
        # connection establishment is retried with back-off: failed attempts, pauses and
        # the eventual success interleave with the other callers' pool passes
        pool["retries"] = r.choice(o["retries"])
    callers = []
    big = o.get("big", tier == "thorough") and net["seg"] in ("whole", "segment")
    small = net["seg"] == "byte"
    for ci in range(n_callers):
        ops = []
        for oi in range(r.randint(1, o.get("max_ops", 4))):
            tok = f"c{ci}r{oi}"
            host = r.choice(hosts)
            method = r.choice(["GET"] * 5 + ["POST", "POST", "PUT", "HEAD", "DELETE"])
            op = {"op": "request", "token": tok, "method": method,
                  "url": f"{scheme}://{host}/t/{tok}",
                  "resp": gen.gen_resp_plan(r, tok.encode(), method,
                                            {"big": big, **o.get("resp_opts", {})}),
                  "consume": gen.gen_consume(r, o.get("consume_opts")),
                  # a low-cardinality header: HPACK indexes it, so a client whose dynamic
                  # table has drifted from the server's makes the server decode another value
                  "headers": [["x-sel", rsel.choice(["s0", "s1", "s2"])],
                              ["X-Grp", rsel.choice(["g0", "g1"])]]}
            if method in ("POST", "PUT"):
                b = gen.gen_req_body(r, big=big)
                if b is None:
                    b = {"len": r.randint(0, 2000)}
                op["body"] = b
                if proto == "h1" and o.get("p_caller_error") and b["len"] >= 2 and \
                        rsel.random() < o["p_caller_error"]:
                    # a caller error half-way through a request: the body runs past the
                    # Content-Length the caller declared; the declared part is on the wire
                    # and the server answers it - nobody else may ever read that answer
                    m = rsel.randint(1, b["len"] - 1)
                    op["body"] = {"len": b["len"], "chunks": [m, b["len"] - m], "oneshot": True}
                    op["headers"].append(["Content-Length", str(m)])
                    op["caller_error"] = "body-longer-than-content-length"
            to = {}
            if r.random() < o.get("p_pool_timeout", 0.2):
                to["pool"] = r.choice([0.0, 0.001, 0.05, 0.5, 5.0])
            if faulty or r.random() < 0.2:
                to.update({"connect": 5.0, "read": 5.0, "write": 5.0})
            if to:
                op["timeouts"] = to
            if r.random() < o.get("p_trace", 0.0):
                op["trace"] = True
            if proto in ("h2", "mix") and op.get("body"):
                # uploads stay inside the stream and connection windows: waiting for
                # flow-control credit on a shared connection is C13's business (KF-C13-1)
                lim = 1000
                if op["body"]["len"] > lim:
                    op["body"] = {"len": r.randint(0, lim)}
            if small:
                # one byte per read: keep the run short
                if op["resp"].get("body_len", 0) > 1500:
                    _shrink_plan(op["resp"], r.randint(0, 1500))
                if op.get("body") and op["body"]["len"] > 1500:
                    op["body"] = {"len": r.randint(0, 1500)}
            ops.append(op)
            if r.random() < 0.2:
                ops.append({"op": "sleep", "d": r.choice([0.0, 0.001, 0.06, 0.3])})
        callers.append({"start": r.choice([0, 0, 0, 0.001, 0.01, 0.1]), "ops": ops})
    scn = {"seed": seed, "exec": ex, "pool": pool, "net": net, "callers": callers,
           "epilogue": o.get("epilogue", ["settle", "close_pool"])}
    if ex == "asyncio":
        scn["sched"] = r.choice(o.get("scheds", ["fifo", "fifo", "shuffle"]))
        if o.get("cancels") and r.random() < 0.7:
            ci = r.randrange(n_callers)
            kind = r.choice(o.get("cancel_kinds", ["scope", "scope", "deadline", "native"]))
            if kind == "deadline":
                scn["cancel"] = {"caller": f"c{ci}", "kind": "deadline",
                                 "t": r.choice([0.0, 0.001, 0.01, 0.05, 0.2, 1.0])}
            else:
                scn["cancel"] = {"caller": f"c{ci}", "kind": kind,
                                 "timing": r.choice(["early", "late"]),
                                 "step": r.randint(1, 60)}
    elif ex == "trio":
        scn["tick"] = 0.0
        if o.get("cancels") and r.random() < 0.7:
            ci = r.randrange(n_callers)
            if r.random() < 0.3:
                scn["cancel"] = {"caller": f"c{ci}", "kind": "deadline",
                                 "t": r.choice([0.0, 0.001, 0.01, 0.05, 0.2, 1.0])}
            else:
                scn["cancel"] = {"caller": f"c{ci}", "kind": "scope", "timing": "early",
                                 "step": r.randint(1, 60)}
    else:
        scn["policy"] = r.choice(o.get("policies", [
            {"mode": "ops", "op_p": 0.5}, {"mode": "lines", "p": 0.02},
            {"mode": "lines", "p": 0.1}, {"mode": "lines", "p": 0.3},
            {"mode": "pct", "q": 0.004, "q_op": 0.05}]))
    if r.random() < 0.3 and ex != "trio":
        scn["tick"] = 1e-9
    return scn


def _shrink_plan(plan, n):
    """Reduce the body of a generated response plan to n bytes, keeping it well-framed."""
    if plan.get("framing") == "none":
        return
    plan["body_len"] = n
    if plan["framing"] == "cl":
        for h in plan["headers"]:
            if bytes(h[0]).lower() == b"content-length":
                old = h[1]
                h[1] = b"%d" % n
                plan["header_lines"] = [
                    ln.replace(old, h[1]) if bytes(ln).lower().startswith(b"content-length") else ln
                    for ln in plan["header_lines"]]
    elif plan["framing"] == "chunked":
        plan["chunks"] = [n] if n else []


class PoolMixFamily(ScenarioFamily):
    def __init__(self, prop, name, n_quick, n_thorough, opts, observers, posts,
                 allow_native_sigs=False):
        super().__init__(prop, name, n_quick, n_thorough)
        self.opts = opts
        self._observers = observers
        self._posts = posts

    def generate(self, seed, index, tier):
        return gen_poolmix(seed, tier, self.opts)

    def observers(self, scn):
        return [cls() for cls in self._observers] + [StateSampler()]

    def post(self, res, scn):
        for f in self._posts:
            f(res)
