from __future__ import annotations

import argparse
import os
import sys


def main(argv=None):
    ap = argparse.ArgumentParser(prog="check")
    ap.add_argument("prop")
    ap.add_argument("--tier", default=os.environ.get("VERIF_TIER", "quick"),
                    choices=["quick", "thorough"])
    ap.add_argument("--replay")
    ap.add_argument("--seed", type=int, default=None)
    ap.add_argument("--jobs", type=int, default=None)
    ap.add_argument("--budget", type=float, default=None)
    a = ap.parse_args(argv)
    seed = a.seed if a.seed is not None else int(os.environ.get("VERIF_SEED", "0") or 0)
    from . import runner

    if a.replay:
        ok, same, sigs, doc = runner.replay(a.replay)
        print(f"replay {a.replay}: expected signature {doc['signature']!r}; "
              f"observed {sigs}; digest {'identical' if same else 'DIFFERENT'}")
        if ok:
            print(f"VIOLATION property={doc['property']} replay={a.replay}")
            return 1
        return 0
    if a.prop == "selftest":
        from . import selftest

        return selftest.main()
    return runner.run_check(a.prop, a.tier, seed, a.jobs, a.budget)


if __name__ == "__main__":
    sys.exit(main())
