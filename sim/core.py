"""Kernel: named PRNG streams, ledger, digests, the per-run World."""
from __future__ import annotations

import collections
import hashlib
import json
import random


class SimAbort(BaseException):
    """Raised inside parked threads / tasks at teardown."""


class HarnessError(Exception):
    """A failure of the simulator or an oracle itself (never a verdict)."""


class Deadlock(Exception):
    """Nothing runnable, no timer pending, callers unfinished."""

    def __init__(self, blocked):
        super().__init__("deadlock")
        self.blocked = blocked


class StepCap(Exception):
    """Step budget exhausted -> inconclusive run."""


def sub_seed(*parts) -> int:
    h = hashlib.sha256("/".join(str(p) for p in parts).encode()).digest()
    return int.from_bytes(h[:8], "big")


class Streams:
    """Named PRNG streams: every draw of a run comes from Random(f"{seed}/{name}")."""

    def __init__(self, seed):
        self.seed = seed
        self._s = {}

    def get(self, name: str) -> random.Random:
        r = self._s.get(name)
        if r is None:
            # str seeds are hashed with sha512 by random.seed(version=2): independent
            # of PYTHONHASHSEED.
            r = self._s[name] = random.Random(f"{self.seed}/{name}")
        return r


class Ledger:
    """Append-only event list.  Events are tuples (seq, t, kind, *fields); fields are
    plain python values (str/int/float/bytes/tuple/None) so that repr() is canonical."""

    def __init__(self, world):
        self.w = world
        self.ev = []

    def log(self, kind, *fields):
        self.ev.append((len(self.ev), self.w.now, kind) + fields)
        return len(self.ev) - 1

    def of(self, *kinds):
        ks = set(kinds)
        return [e for e in self.ev if e[2] in ks]

    def digest(self) -> str:
        h = hashlib.sha256()
        for e in self.ev:
            h.update(repr(e).encode())
            h.update(b"\n")
        return h.hexdigest()


class World:
    """Per-run state shared by executor, wires, peers and oracles."""

    def __init__(self, seed, scenario):
        self.seed = seed
        self.scn = scenario
        self._clock = None                   # executor-owned clock (trio)
        self._now = 0.0
        self.tick = 0.0  # optional clock tick per monotonic() read
        self.streams = Streams(seed)
        self.ledger = Ledger(self)
        self.stats = collections.Counter()   # fault kinds fired etc.
        self.probes = collections.Counter()  # rare conditions reached
        self.violations = []                 # (property, signature, detail)
        self.opcount = 0                     # global wire-operation counter
        self.wires = []
        self.executor = None
        self.net = None
        self.sleeps = []                     # backend.sleep arguments
        self.faults_by_op = {}               # op index -> fault dict
        self.ctx_name = lambda: "?"          # current caller name (set by executor)
        self.ctx_site = lambda: None         # current httpcore call site
        self.on_change = None                # invariant hook (wire / pool changed)
        self.on_assign = None                # hook: the pool hands a connection to a request
        self.cur_token = {}                  # caller name -> token being worked on
        self.observing = False               # set while an oracle inspects the SUT
        self.fault_sites = []                # (op index, fault, op kind, httpcore site)
        self.log_sites = bool(scenario.get("log_sites"))

    @property
    def now(self):
        c = self._clock
        return self._now if c is None else c()

    @now.setter
    def now(self, v):
        if self._clock is None:
            self._now = v

    def rng(self, name):
        return self.streams.get(name)

    def log(self, kind, *fields):
        return self.ledger.log(kind, *fields)

    def violate(self, prop, sig, detail):
        self.violations.append((prop, sig, detail))
        self.ledger.log("VIOLATION", prop, sig)

    def monotonic(self):
        # the only clock httpcore reads
        if self.tick and not self.observing:
            self.now += self.tick
        return self.now

    def changed(self):
        cb = self.on_change
        if cb is not None:
            cb()


def no_progress(mark, world):
    """Livelock criterion: since `mark` = (virtual time, network operation count) no network
    operation has started and virtual time has not moved by more than the clock ticks a
    spinning caller produces (1 ns per clock read in tick mode)."""
    return mark is not None and mark[1] == world.opcount and abs(world.now - mark[0]) < 1e-3


def canon(obj):
    """Canonical JSON (for scenario digests / replay files)."""
    return json.dumps(obj, sort_keys=True, separators=(",", ":"), default=_default)


def _default(o):
    if isinstance(o, bytes):
        return {"__b": o.decode("latin-1")}
    if isinstance(o, (set, frozenset)):
        return sorted(o)
    if isinstance(o, tuple):
        return list(o)
    raise TypeError(type(o))


def jdump(obj, **kw):
    return json.dumps(obj, default=_default, **kw)


def jload_bytes(o):
    """Inverse of _default for bytes markers."""
    if isinstance(o, dict):
        if set(o) == {"__b"}:
            return o["__b"].encode("latin-1")
        return {k: jload_bytes(v) for k, v in o.items()}
    if isinstance(o, list):
        return [jload_bytes(v) for v in o]
    return o
