"""Seam L1: simulated network backends plugged into the public `network_backend=`
argument.  Async (SimLoop) and sync (thread scheduler) variants over the same Wire
model.  Parameter names follow httpcore's backend interface exactly (SOCKS code calls
read(max_bytes=...) by keyword)."""
from __future__ import annotations

from . import sut
from .aloop import adrive
from .wire import WireError

httpcore = sut.httpcore

EXC = {
    "connect_error": httpcore.ConnectError,
    "connect_timeout": httpcore.ConnectTimeout,
    "tls_error": httpcore.ConnectError,
    "tls_timeout": httpcore.ConnectTimeout,
    "read_error": httpcore.ReadError,
    "read_timeout": httpcore.ReadTimeout,
    "write_error": httpcore.WriteError,
    "write_timeout": httpcore.WriteTimeout,
    # a failure that is neither a connect error nor a connect time-out
    "other": httpcore.ReadError,
}


def _map(e: WireError):
    return EXC[e.kind](str(e))


class SSLObject:
    def __init__(self, wire):
        self._wire = wire

    def selected_alpn_protocol(self):
        return self._wire.alpn()


class SSLContext:
    """Duck-typed ssl context handed to httpcore; records ALPN offers."""

    def __init__(self, name="ctx"):
        self.name = name
        self.alpn = None

    def set_alpn_protocols(self, protos):
        self.alpn = list(protos)


class _StreamInfo:
    def get_extra_info(self, info):
        if info == "ssl_object":
            return SSLObject(self.wire) if self.wire.tls else None
        if info == "is_readable":
            return self.wire.readable()
        if info == "server_addr":
            return self.wire.endpoint
        if info == "sim_wire":
            return self.wire
        return None


class AStream(_StreamInfo, httpcore.AsyncNetworkStream):
    def __init__(self, world, wire):
        self.world = world
        self.wire = wire

    async def read(self, max_bytes, timeout=None):
        try:
            return await adrive(self.world, self.wire, self.wire.recv(max_bytes, timeout))
        except WireError as e:
            raise _map(e) from None

    async def write(self, buffer, timeout=None):
        if not buffer:
            return
        try:
            await adrive(self.world, self.wire, self.wire.send(bytes(buffer), timeout))
        except WireError as e:
            raise _map(e) from None

    async def aclose(self):
        await adrive(self.world, self.wire, self.wire.close())

    async def start_tls(self, ssl_context, server_hostname=None, timeout=None):
        offered = getattr(ssl_context, "alpn", None)
        try:
            await adrive(
                self.world, self.wire, self.wire.start_tls(server_hostname, offered, timeout)
            )
        except WireError as e:
            # the real backends close the socket when the handshake fails with an
            # Exception (not when it is cancelled)
            self.world.probes["tls_fail_closed_by_backend"] += 1
            await self.aclose()
            raise _map(e) from None
        return AStream(self.world, self.wire)


class ABackend(httpcore.AsyncNetworkBackend):
    def __init__(self, world):
        self.world = world

    async def connect_tcp(self, host, port, timeout=None, local_address=None,
                          socket_options=None):
        w = self.world
        try:
            wire = await adrive(w, None, w.net.connect((host, port), timeout))
        except WireError as e:
            raise _map(e) from None
        return AStream(w, wire)

    async def connect_unix_socket(self, path, timeout=None, socket_options=None):
        w = self.world
        try:
            wire = await adrive(w, None, w.net.connect(("unix", path), timeout))
        except WireError as e:
            raise _map(e) from None
        return AStream(w, wire)

    async def sleep(self, seconds):
        w = self.world
        w.sleeps.append(seconds)
        w.log("sleep", w.ctx_name(), seconds)
        t = w.now + seconds

        def g():
            first = True
            while first or w.now < t:
                first = False
                yield t

        await adrive(w, None, g())


# ---------------------------------------------------------------------------
# sync variants: the driver is the thread scheduler


def sdrive(world, wire, gen):
    sched = world.executor
    try:
        until = next(gen)
        while True:
            sched.wait(wire, until)
            until = gen.send(None)
    except StopIteration as e:
        return e.value
    finally:
        gen.close()


class SStream(_StreamInfo, httpcore.NetworkStream):
    def __init__(self, world, wire):
        self.world = world
        self.wire = wire

    def read(self, max_bytes, timeout=None):
        try:
            return sdrive(self.world, self.wire, self.wire.recv(max_bytes, timeout))
        except WireError as e:
            raise _map(e) from None

    def write(self, buffer, timeout=None):
        if not buffer:
            return
        try:
            sdrive(self.world, self.wire, self.wire.send(bytes(buffer), timeout))
        except WireError as e:
            raise _map(e) from None

    def close(self):
        sdrive(self.world, self.wire, self.wire.close())

    def start_tls(self, ssl_context, server_hostname=None, timeout=None):
        offered = getattr(ssl_context, "alpn", None)
        try:
            sdrive(self.world, self.wire,
                   self.wire.start_tls(server_hostname, offered, timeout))
        except WireError as e:
            self.world.probes["tls_fail_closed_by_backend"] += 1
            self.close()
            raise _map(e) from None
        return SStream(self.world, self.wire)


class SBackend(httpcore.NetworkBackend):
    def __init__(self, world):
        self.world = world

    def connect_tcp(self, host, port, timeout=None, local_address=None,
                    socket_options=None):
        w = self.world
        try:
            wire = sdrive(w, None, w.net.connect((host, port), timeout))
        except WireError as e:
            raise _map(e) from None
        return SStream(w, wire)

    def connect_unix_socket(self, path, timeout=None, socket_options=None):
        w = self.world
        try:
            wire = sdrive(w, None, w.net.connect(("unix", path), timeout))
        except WireError as e:
            raise _map(e) from None
        return SStream(w, wire)

    def sleep(self, seconds):
        w = self.world
        w.sleeps.append(seconds)
        w.log("sleep", w.ctx_name(), seconds)
        t = w.now + seconds

        def g():
            first = True
            while first or w.now < t:
                first = False
                yield t

        sdrive(w, None, g())
