"""Seam L2: the REAL network backends of httpcore (AnyIOBackend and TrioBackend via
AutoBackend, SyncBackend) run above fakes of the OS / runtime layer: fake anyio.connect_tcp /
TLSStream.wrap / byte-stream objects and fake socket.create_connection / socket objects /
SSLSocket, all over the same Wire model.  The backends' exception maps, fail_after /
settimeout handling and close-on-TLS-failure are then real code under test."""
from __future__ import annotations

import socket as _real_socket
import ssl as _ssl
import types

import anyio as _real_anyio

from . import sut
from .aloop import adrive
from .backends import SSLObject, sdrive
from .core import HarnessError
from .wire import WireError

import httpcore._backends.anyio as hc_anyio  # noqa: E402
import httpcore._backends.sync as hc_sync  # noqa: E402

import httpcore._backends.trio as hc_trio  # noqa: E402

for _m, _names in ((hc_anyio, ("anyio", "is_socket_readable")),
                   (hc_sync, ("socket", "is_socket_readable")),
                   (hc_trio, ("trio",))):
    for _n in _names:
        if not hasattr(_m, _n):
            raise HarnessError(f"seam missing: {_m.__name__}.{_n}")


class FakeSock:
    """What get_extra_info('socket') / raw_socket returns; only used for readability."""

    def __init__(self, wire):
        self.wire = wire

    def fileno(self):
        return 1000 + self.wire.id

    def setsockopt(self, *a):
        self.wire.w.log("setsockopt", self.wire.id, tuple(a))


def _is_readable(sock):
    if sock is None:
        return True
    w = getattr(sock, "wire", None)
    if w is None:
        return True
    return w.readable()


# ---------------------------------------------------------------------------
# anyio


class FakeAnyioStream:
    def __init__(self, world, wire):
        self.world = world
        self.wire = wire
        self._raw_socket = FakeSock(wire)

    async def receive(self, max_bytes=65536):
        try:
            data = await adrive(self.world, self.wire, self.wire.recv(max_bytes, None))
        except WireError as e:
            if "closed locally" in str(e):
                raise _real_anyio.ClosedResourceError from None
            raise _real_anyio.BrokenResourceError from None
        if data == b"":
            raise _real_anyio.EndOfStream
        return data

    async def send(self, item):
        try:
            await adrive(self.world, self.wire, self.wire.send(bytes(item), None))
        except WireError as e:
            if "closed locally" in str(e):
                raise _real_anyio.ClosedResourceError from None
            raise _real_anyio.BrokenResourceError from None

    async def aclose(self):
        await adrive(self.world, self.wire, self.wire.close())

    def extra(self, attr, default=None):
        A = _real_anyio.abc.SocketAttribute
        T = _real_anyio.streams.tls.TLSAttribute
        if attr is A.raw_socket:
            return self._raw_socket
        if attr is T.ssl_object:
            return SSLObject(self.wire) if self.wire.tls else default
        if attr is A.remote_address:
            return self.wire.endpoint
        if attr is A.local_address:
            return ("127.0.0.1", 50000 + self.wire.id)
        return default


class _FakeTLSStream:
    @classmethod
    async def wrap(cls, transport_stream, *, server_side=None, hostname=None, ssl_context=None,
                   standard_compatible=True):
        st = transport_stream
        offered = getattr(ssl_context, "alpn", None)
        try:
            await adrive(st.world, st.wire, st.wire.start_tls(hostname, offered, None))
        except WireError as e:
            st.world.probes["l2_tls_failure_seen_by_real_backend"] += 1
            if "handshake" in str(e) or "injected" in str(e):
                x = st.world.rng("tls-error-kind").random()
                if x < 0.6:
                    raise _ssl.SSLError(1, "[SSL] simulated handshake failure") from None
                if x < 0.8:
                    raise _real_anyio.EndOfStream from None
            raise _real_anyio.BrokenResourceError from None
        return FakeAnyioStream(st.world, st.wire)


class AnyioShim:
    """Proxy for the `anyio` name inside httpcore._backends.anyio."""

    def __init__(self, world):
        self._world = world
        self.streams = types.SimpleNamespace(
            tls=types.SimpleNamespace(TLSStream=_FakeTLSStream,
                                      TLSAttribute=_real_anyio.streams.tls.TLSAttribute))

    def __getattr__(self, name):
        return getattr(_real_anyio, name)

    async def connect_tcp(self, remote_host, remote_port, local_host=None, **kw):
        w = self._world
        try:
            wire = await adrive(w, None, w.net.connect((remote_host, remote_port), None))
        except WireError as e:
            raise ConnectionRefusedError(111, str(e)) from None
        return FakeAnyioStream(w, wire)

    async def connect_unix(self, path):
        w = self._world
        try:
            wire = await adrive(w, None, w.net.connect(("unix", path), None))
        except WireError as e:
            raise FileNotFoundError(2, str(e)) from None
        return FakeAnyioStream(w, wire)


# ---------------------------------------------------------------------------
# trio


class FakeTrioSocket:
    """What SocketStream.socket is to TrioStream.get_extra_info."""

    def __init__(self, wire):
        self.wire = wire

    def is_readable(self):
        return self.wire.readable()

    def getsockname(self):
        return ("127.0.0.1", 50000 + self.wire.id)

    def getpeername(self):
        return self.wire.endpoint

    def setsockopt(self, *a):
        pass


class FakeTrioSocketStream:
    """Plays trio.SocketStream."""

    def __init__(self, world, wire):
        self.world = world
        self.wire = wire
        self.socket = FakeTrioSocket(wire)

    async def receive_some(self, max_bytes=None):
        import trio

        try:
            return await adrive(self.world, self.wire, self.wire.recv(max_bytes or 65536, None))
        except WireError as e:
            if "closed locally" in str(e):
                raise trio.ClosedResourceError from None
            raise trio.BrokenResourceError from None

    async def send_all(self, data):
        import trio

        try:
            await adrive(self.world, self.wire, self.wire.send(bytes(data), None))
        except WireError as e:
            if "closed locally" in str(e):
                raise trio.ClosedResourceError from None
            raise trio.BrokenResourceError from None

    async def aclose(self):
        await adrive(self.world, self.wire, self.wire.close())

    def setsockopt(self, *a):
        pass


class FakeTrioSSLStream:
    """Plays trio.SSLStream (possibly nested: TLS inside a TLS proxy tunnel)."""

    def __init__(self, transport_stream, ssl_context=None, server_hostname=None,
                 https_compatible=False, server_side=False):
        self.transport_stream = transport_stream
        self._ctx = ssl_context
        self._hostname = server_hostname
        self._ssl_object = None
        base = transport_stream
        while isinstance(base, FakeTrioSSLStream):
            base = base.transport_stream
        self._base = base
        self.world = base.world
        self.wire = base.wire     # the ownership walk (C04/C06) stops at objects with .wire

    async def do_handshake(self):
        import trio

        b = self._base
        offered = getattr(self._ctx, "alpn", None)
        try:
            await adrive(b.world, b.wire, b.wire.start_tls(self._hostname, offered, None))
        except WireError:
            # trio reports a failed handshake (ssl.SSLError) as BrokenResourceError
            b.world.probes["l2_tls_failure_seen_by_real_backend"] += 1
            raise trio.BrokenResourceError from None
        self._ssl_object = SSLObject(b.wire)

    async def receive_some(self, max_bytes=None):
        return await self._base.receive_some(max_bytes)

    async def send_all(self, data):
        await self._base.send_all(data)

    async def aclose(self):
        await self._base.aclose()


class TrioShim:
    """Proxy for the `trio` name inside httpcore._backends.trio."""

    SSLStream = FakeTrioSSLStream
    SocketStream = FakeTrioSocketStream

    def __init__(self, world):
        self._world = world

    def __getattr__(self, name):
        import trio

        return getattr(trio, name)

    async def open_tcp_stream(self, host, port, local_address=None, **kw):
        w = self._world
        try:
            wire = await adrive(w, None, w.net.connect((host, port), None))
        except WireError as e:
            raise ConnectionRefusedError(111, str(e)) from None
        return FakeTrioSocketStream(w, wire)

    async def open_unix_socket(self, path):
        w = self._world
        try:
            wire = await adrive(w, None, w.net.connect(("unix", path), None))
        except WireError as e:
            raise FileNotFoundError(2, str(e)) from None
        return FakeTrioSocketStream(w, wire)


# ---------------------------------------------------------------------------
# sync sockets


class FakeSocket:
    def __init__(self, world, wire=None):
        self.world = world
        self.wire = wire
        self.timeout = None
        self.opts = []

    def fileno(self):
        return 1000 + self.wire.id if self.wire is not None else -1

    def _need(self):
        if self.wire is None:
            raise OSError(9, "Bad file descriptor")     # detached or never connected

    def settimeout(self, t):
        if getattr(self, "closed", False):
            raise OSError(9, "Bad file descriptor")      # as a real closed socket does
        self.timeout = t
        self.world.log("settimeout", self.wire.id if self.wire else -1, t)

    def gettimeout(self):
        return self.timeout

    def detach(self):
        """As socket.detach(): this object no longer owns the descriptor."""
        w, self.wire = self.wire, None
        return w

    def setsockopt(self, *a):
        self.opts.append(a)

    def getsockname(self):
        return ("127.0.0.1", 50000)

    def getpeername(self):
        return self.wire.endpoint

    def connect(self, path):
        try:
            self.wire = sdrive(self.world, None, self.world.net.connect(("unix", path), self.timeout))
        except WireError as e:
            raise _err(e) from None

    def recv(self, n):
        self._need()
        try:
            return sdrive(self.world, self.wire, self.wire.recv(n, self.timeout))
        except WireError as e:
            raise _err(e) from None

    def send(self, data):
        self._need()
        data = bytes(data)
        # short writes are legal for send()
        r = self.world.rng(f"shortwrite/{self.wire.id}")
        k = len(data) if (len(data) < 2 or r.random() < 0.7) else r.randint(1, len(data))
        if k < len(data):
            self.world.stats["short_write"] += 1
        try:
            sdrive(self.world, self.wire, self.wire.send(data[:k], self.timeout))
        except WireError as e:
            raise _err(e) from None
        return k

    def sendall(self, data):
        data = bytes(data)
        while data:
            n = self.send(data)
            data = data[n:]

    def close(self):
        self.closed = True
        if self.wire is not None:
            sdrive(self.world, self.wire, self.wire.close())


def _err(e: WireError, world=None):
    if e.kind.endswith("timeout"):
        return _real_socket.timeout("timed out")
    if e.kind in ("connect_error",):
        return ConnectionRefusedError(111, str(e))
    if e.kind == "tls_error":
        # a handshake fails with an SSLError (bad record, certificate, EOF) or with a
        # plain OSError when the peer resets the connection in the middle of it
        x = world.rng("tls-error-kind").random() if world is not None else 0.0
        if x < 0.5:
            return _ssl.SSLError(1, "[SSL] simulated handshake failure")
        if x < 0.65:
            return _ssl.SSLEOFError(8, "EOF occurred in violation of protocol")
        if x < 0.85:
            return ConnectionResetError(104, "Connection reset by peer")
        return BrokenPipeError(32, "Broken pipe")
    if e.kind == "read_error":
        return ConnectionResetError(104, str(e))
    if e.kind == "write_error":
        return BrokenPipeError(32, str(e))
    return OSError(5, str(e))


class FakeSSLSocket(_ssl.SSLSocket):
    """An ssl.SSLSocket subclass without a real socket: satisfies SyncStream's isinstance
    checks, so that get_extra_info('ssl_object') and the TLS-in-TLS branch see a TLS
    socket."""

    def __new__(cls, inner, hostname=None, alpn=None):
        return _ssl.SSLSocket.__new__(cls)

    def __init__(self, inner, hostname=None, alpn=None):  # noqa: D401  (no super().__init__)
        object.__setattr__(self, "_inner", inner)
        object.__setattr__(self, "_sslobj", SSLObject(inner.wire))
        object.__setattr__(self, "_hs", (hostname, alpn))

    def __getattribute__(self, name):
        if name in ("_inner", "_sslobj", "_hs", "__class__", "__dict__", "do_handshake"):
            return object.__getattribute__(self, name)
        inner = object.__getattribute__(self, "_inner")
        if name in ("settimeout", "gettimeout", "recv", "send", "sendall", "close", "fileno",
                    "getsockname", "getpeername", "setsockopt", "wire", "world", "timeout",
                    "detach"):
            return getattr(inner, name)
        return object.__getattribute__(self, name)

    def do_handshake(self, block=False):
        """Explicit handshake (wrap_socket(do_handshake_on_connect=False)): unlike the
        implicit one, a failure does NOT close the socket."""
        inner = object.__getattribute__(self, "_inner")
        hostname, alpn = object.__getattribute__(self, "_hs")
        inner._need()
        try:
            sdrive(inner.world, inner.wire, inner.wire.start_tls(hostname, alpn, inner.timeout))
        except WireError as e:
            inner.world.probes["l2_tls_failure_seen_by_real_backend"] += 1
            raise _err(e, inner.world) from None

    def __del__(self):
        pass


class L2SSLContext:
    """Duck ssl context for the sync path: wrap_socket runs the simulated handshake."""

    def __init__(self, name="ctx"):
        self.name = name
        self.alpn = None

    def set_alpn_protocols(self, protos):
        self.alpn = list(protos)

    def wrap_socket(self, sock, server_hostname=None, do_handshake_on_connect=True, **kw):
        """As ssl.SSLContext.wrap_socket: the descriptor moves from `sock` (which is
        detached: closing it afterwards closes nothing) into the new SSLSocket; the
        implicit handshake closes the new socket itself when it fails."""
        if isinstance(sock, FakeSSLSocket):
            raise HarnessError("TLS-in-TLS is not modelled at L2 (sync)")
        inner = FakeSocket(sock.world, sock.detach())
        inner.timeout = sock.timeout
        new = FakeSSLSocket(inner, server_hostname, self.alpn)
        if do_handshake_on_connect:
            try:
                new.do_handshake()
            except BaseException:
                inner.close()
                raise
        return new


class SocketShim:
    """Proxy for the `socket` name inside httpcore._backends.sync."""

    def __init__(self, world):
        self._world = world

    def __getattr__(self, name):
        return getattr(_real_socket, name)

    def create_connection(self, address, timeout=None, source_address=None, **kw):
        w = self._world
        try:
            wire = sdrive(w, None, w.net.connect(tuple(address), timeout))
        except WireError as e:
            raise _err(e) from None
        s = FakeSocket(w, wire)
        s.timeout = timeout
        return s

    def socket(self, family=None, type=None, *a, **kw):
        return FakeSocket(self._world)


# ---------------------------------------------------------------------------


class Installed:
    def __init__(self, world, sync, lib="asyncio"):
        self.world = world
        self.sync = sync
        self.lib = lib
        self.saved = []

    def __enter__(self):
        w = self.world
        w.net.cfg["l2"] = not self.sync   # async: the real fail_after owns every time-out
        if self.sync:
            pairs = [(hc_sync, "socket", SocketShim(w)), (hc_sync, "is_socket_readable", _is_readable)]
        elif self.lib == "trio":
            pairs = [(hc_trio, "trio", TrioShim(w))]
        else:
            pairs = [(hc_anyio, "anyio", AnyioShim(w)), (hc_anyio, "is_socket_readable", _is_readable)]
        for mod, name, val in pairs:
            self.saved.append((mod, name, getattr(mod, name)))
            setattr(mod, name, val)
        return self

    def __exit__(self, *a):
        for mod, name, val in self.saved:
            setattr(mod, name, val)
        self.saved = []
