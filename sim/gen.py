"""Scenario generators: building blocks shared by the property families.  Every draw
comes from the random.Random handed in (derived from the run seed)."""
from __future__ import annotations

import random

from .peers.h1 import REASONS

HDR_NAMES = [b"Server", b"X-Custom", b"x-lower", b"X-UPPER", b"Set-Cookie", b"Vary",
             b"Cache-Control", b"ETag", b"X-Dup"]
HDR_VALUES = [b"sim", b"a=b; Path=/", b"Accept-Encoding", b"no-cache", b'"abc"', b"1",
              b"two words", b"x" * 40, b"semi;colon,comma"]


def mk_rng(*parts):
    return random.Random("/".join(str(p) for p in parts))


def gen_headers(r, n_max=4):
    out = []
    for _ in range(r.randint(0, n_max)):
        k = r.choice(HDR_NAMES)
        out.append([k, r.choice(HDR_VALUES)])
        if r.random() < 0.2:
            out.append([k if r.random() < 0.5 else k.swapcase(), r.choice(HDR_VALUES)])
    return out


def gen_body_len(r, big=False):
    x = r.random()
    if x < 0.15:
        return 0
    if x < 0.6:
        return r.randint(1, 300)
    if x < 0.9 or not big:
        return r.randint(301, 6000)
    return r.randint(6001, 150000)


def gen_chunks(r, n):
    if n == 0:
        return []
    out = []
    left = n
    while left > 0:
        k = min(left, r.choice([1, 2, 7, 16, 100, 1000, 4096, 20000]))
        k = r.randint(1, k)
        out.append(k)
        left -= k
        if len(out) > 60:
            out.append(left)
            left = 0
    return [c for c in out if c > 0]


def gen_resp_plan(r, token: bytes, method="GET", opts=None):
    """A well-framed response plan (the property's premise: exactly one well-framed
    final response per request)."""
    o = opts or {}
    status = r.choice([200] * 6 + [201, 204, 304, 404, 500, 301, 418, 503, 206])
    if o.get("status") is not None:
        status = o["status"]
    bodiless = status in (204, 304) or method == "HEAD"
    n = 0 if bodiless else gen_body_len(r, big=o.get("big", False))
    if o.get("body_len") is not None and not bodiless:
        n = o["body_len"]
    fr_choices = o.get("framings") or ["cl"] * 6 + ["chunked"] * 3 + ["close"]
    framing = "none" if bodiless else r.choice(fr_choices)
    http10 = False
    if not bodiless and framing in ("cl", "close") and r.random() < o.get("p_http10", 0.05):
        http10 = True
    hdrs = gen_headers(r)
    hdrs.append([b"x-echo-token", token])
    fh = None
    if framing == "cl":
        fh = [r.choice([b"Content-Length", b"content-length", b"CONTENT-LENGTH"]),
              b"%d" % n]
    elif framing == "chunked":
        fh = [r.choice([b"Transfer-Encoding", b"transfer-encoding"]), b"chunked"]
    elif framing == "none" and method == "HEAD" and r.random() < 0.5:
        fh = [b"Content-Length", b"%d" % r.randint(0, 5000)]
    if fh is not None:
        hdrs.insert(r.randint(0, len(hdrs)), fh)
    early = None
    if o.get("p_early") and method in ("POST", "PUT", "PATCH") and r.random() < o["p_early"]:
        # HTTP/1.1: the server answers as soon as it has the request head, before the
        # body has arrived, and either goes on reading the body or - saying so in the
        # response - closes the connection
        early = r.choice([True, True, "close"])
    conn_close = (framing != "close" and not http10
                  and r.random() < o.get("p_conn_close", 0.1))
    if early == "close" and framing != "close" and not http10:
        conn_close = True
    if conn_close:
        hdrs.insert(r.randint(0, len(hdrs)), [b"Connection", b"close"])
    lines = []
    for k, v in hdrs:
        style = r.random()
        if style < 0.7:
            lines.append(k + b": " + v)
        elif style < 0.8:
            lines.append(k + b":" + v)
        elif style < 0.9:
            lines.append(k + b":  " + v + b" ")
        else:
            lines.append(k + b":\t" + v + b"\t ")
    plan = {
        "status": status,
        # obs-text (bytes >= 0x80) is legal in a reason phrase
        "reason": r.choice([REASONS.get(status, b"Whatever"), b"Fine By Me", b"ok", b"ok",
                            b"n\xe9cessaire", b"\xff\xfe fine"]),
        "headers": hdrs,
        "header_lines": lines,
        "framing": framing,
        "body_len": n,
    }
    if http10:
        plan["http10"] = True
    if conn_close:
        plan["conn_close"] = True
    if framing == "chunked":
        plan["chunks"] = gen_chunks(r, n)
        plan["chunk_style"] = r.choice([0, 0, 1, 2])
        if r.random() < 0.15:
            plan["trailers"] = [b"X-Trailer: done"]
    if r.random() < o.get("p_interim", 0.1):
        plan["interim"] = r.choice([[100], [103], [102, 103], [103, 103, 100]])
    if r.random() < o.get("p_think", 0.3):
        plan["think"] = r.choice([0.001, 0.01, 0.05, 0.2])
    if early is not None:
        plan["early"] = early
    cm = r.random()
    if cm < o.get("p_cut", 0.3):
        plan["cutmode"] = "random"
        plan["gap"] = r.choice([0.0, 0.001, 0.02])
    if r.random() < 0.3:
        plan["h2_frame"] = r.choice([1, 10, 100, 1000, 16384])
        # thousands of one-byte frames only burn scheduler steps (runs end at the cap)
        while n / plan["h2_frame"] > 3000:
            plan["h2_frame"] *= 10
    if r.random() < 0.25:
        # frames that are no part of the response in the middle of it (HTTP/2 only)
        plan["h2_noise"] = True
    return plan


def gen_req_body(r, big=False):
    x = r.random()
    if x < 0.6:
        return None
    n = gen_body_len(r, big=big)
    if r.random() < 0.5:
        return {"len": n}
    chunks = gen_chunks(r, n)
    if r.random() < 0.2:
        chunks.insert(r.randint(0, len(chunks)), 0)
    return {"len": n, "chunks": chunks, "oneshot": r.random() < 0.5}


def gen_consume(r, o=None):
    o = o or {}
    if "p_hold" in o and r.random() < o["p_hold"]:
        return {"hold": r.choice([0.02, 0.2, 1.0])}
    x = r.random()
    if x < o.get("p_all", 0.6):
        return "all"
    if x < 0.75:
        return {"chunks": r.randint(0, 3)}
    if x < 0.85:
        return "close"
    if x < 0.93:
        return {"hold": r.choice([0.001, 0.02, 0.2])}
    return {"slow": r.choice([0.001, 0.01])}


LATENCIES = ["zero", "small", "small", "heavy", "fixed"]
SEGS = ["whole", "whole", "random", "segment", "evil", "byte"]


def origin_endpoints(hosts, tls, alpn=None, extra=None):
    eps = {}
    for h in hosts:
        cfg = {"kind": "origin", "tls": tls}
        if alpn:
            cfg["alpn"] = alpn
        if extra:
            cfg.update(extra)
        eps[f"{h}:{443 if tls else 80}"] = cfg
    return eps
