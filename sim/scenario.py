"""Scenario documents -> one deterministic execution.

A scenario is a JSON-able dict (see DESIGN.md §4).  run_scenario(scn) builds the World,
the simulated network, the pool, runs the callers under the chosen executor and
returns a Result with the ledger, outcomes, violations, statistics and digest."""
from __future__ import annotations

import hashlib
import re
import traceback

from . import sut
from .core import Deadlock, HarnessError, SimAbort, StepCap, World, canon
from .peers.h1 import body_for, default_plan
from .wire import Net

httpcore = sut.httpcore

DOCUMENTED = None


def documented_exceptions():
    global DOCUMENTED
    if DOCUMENTED is None:
        names = ["TimeoutException", "PoolTimeout", "ConnectTimeout", "ReadTimeout",
                 "WriteTimeout", "NetworkError", "ConnectError", "ReadError",
                 "WriteError", "ProtocolError", "RemoteProtocolError",
                 "LocalProtocolError", "ProxyError", "UnsupportedProtocol"]
        DOCUMENTED = tuple(getattr(httpcore, n) for n in names)
    return DOCUMENTED


def reqbody_for(token: bytes, n: int) -> bytes:
    return body_for(b"B" + token, n)


class Result:
    def __init__(self):
        self.world = None
        self.outcomes = {}
        self.error = None          # None | "deadlock" | "stepcap"
        self.blocked = None
        self.violations = []
        self.digest = None
        self.info = {}


# ---------------------------------------------------------------------------
# network


def endpoint_key(ep):
    return f"{ep[0]}:{ep[1]}"


def make_peer_factory(world, netcfg):
    from .peers.origin import OriginPeer

    eps = netcfg.get("endpoints", {})

    def factory(endpoint):
        key = endpoint_key(endpoint)
        cfg = eps.get(key)
        if cfg is None:
            host = str(endpoint[0])
            if host.startswith("probe") and host.endswith(".test"):
                cfg = {"kind": "origin", "tls": endpoint[1] == 443}
            elif "*" in eps:
                cfg = eps["*"]
            else:
                return None
        kind = cfg.get("kind", "origin")
        if kind == "refuse":
            return None
        if kind == "origin":
            return OriginPeer(world, cfg, "origin:" + key)
        if kind == "http_proxy":
            from .peers.proxy import HTTPProxyPeer

            return HTTPProxyPeer(world, cfg, "proxy:" + key, factory)
        if kind == "socks":
            from .peers.socks import SocksPeer

            return SocksPeer(world, cfg, "socks:" + key, factory)
        if kind == "raw":
            from .peers.raw import RawPeer

            return RawPeer(world, cfg, "raw:" + key)
        raise HarnessError(f"unknown endpoint kind {kind}")

    return factory


def build_world(scn):
    w = World(scn["seed"], scn)
    w.plans = {}
    w.trace_events = []

    def make_trace(name, token, sync):
        if sync:
            def trace(event_name, info):
                w.trace_events.append((token, event_name))
            return trace

        async def atrace(event_name, info):
            w.trace_events.append((token, event_name))
            ty = scn.get("trace_yields")
            if ty and (ty == "all" or event_name != "http2.send_request_headers.started"):
                # an async trace callback may await: one checkpoint per event, so that a
                # cancellation can land inside the callback.  Awaiting at
                # http2.send_request_headers.started lets a second request allocate the
                # same stream id (KF-C15-2): only the dedicated family does that
                import anyio

                await anyio.lowlevel.checkpoint()
        return atrace

    w.make_trace = make_trace
    w.processed = {}
    w.outcomes = {}
    w.calls = {}
    w.tick = scn.get("tick", 0.0)
    net = Net(w, scn.get("net", {}), None)
    net.peer_factory = make_peer_factory(w, scn.get("net", {}))
    w.net = net
    for f in scn.get("faults", ()):
        w.faults_by_op[f["at"]] = f
    # response plans travel with the request ops
    for ci, c in enumerate(scn.get("callers", ())):
        for oi, op in enumerate(c.get("ops", ())):
            if op.get("op") == "request":
                tok = op["token"].encode() if isinstance(op["token"], str) else op["token"]
                if op.get("resp") is not None:
                    w.plans[tok] = op["resp"]
    for tok, plan in scn.get("plans", {}).items():
        w.plans[tok.encode() if isinstance(tok, str) else tok] = plan
    return w


def pool_kwargs(scn, backend, ctx_factory):
    p = dict(scn.get("pool", {}))
    kw = {"network_backend": backend}
    for k in ("max_connections", "max_keepalive_connections", "keepalive_expiry",
              "http1", "http2", "retries", "uds", "local_address"):
        if k in p:
            kw[k] = p[k]
    if p.get("socket_options"):
        kw["socket_options"] = [tuple(o) for o in p["socket_options"]]
    kw["ssl_context"] = ctx_factory("origin")
    if p.get("ctx_alpn"):
        # the caller's context arrives with an ALPN list already set on it (it has served
        # another pool, or the caller configured it): httpcore must set its own
        kw["ssl_context"].alpn = list(p["ctx_alpn"])
    px = p.get("proxy")
    return kw, px


def build_pool(scn, world, sync):
    from .backends import ABackend, SBackend, SSLContext

    if scn.get("seam") == "L2":
        # the pool builds its own (real) backend; fakes sit below it (sim/l2.py)
        from .l2 import L2SSLContext

        backend = None
        ctxf = (lambda name: L2SSLContext(name)) if sync else (lambda name: SSLContext(name))
    else:
        backend = SBackend(world) if sync else ABackend(world)
        ctxf = lambda name: SSLContext(name)  # noqa: E731
    world.backend = backend
    kw, px = pool_kwargs(scn, backend, ctxf)
    world.ssl_ctx = kw.get("ssl_context")
    if backend is None:
        kw.pop("network_backend", None)
    if px is not None:
        style = px.get("style", "proxy_arg")
        auth = tuple(px["auth"]) if px.get("auth") else None
        headers = [tuple(h) for h in px.get("headers", [])] or None
        pctx = ctxf("proxy") if px["url"].startswith("https") else None
        if style == "proxy_arg":
            kw["proxy"] = httpcore.Proxy(px["url"], auth=auth, headers=headers,
                                         ssl_context=pctx)
            cls = httpcore.ConnectionPool if sync else httpcore.AsyncConnectionPool
            return cls(**kw)
        if px["url"].startswith("socks5"):
            cls = httpcore.SOCKSProxy if sync else httpcore.AsyncSOCKSProxy
            for k in ("uds", "local_address"):
                kw.pop(k, None)
            return cls(proxy_url=px["url"], proxy_auth=auth, **kw)
        cls = httpcore.HTTPProxy if sync else httpcore.AsyncHTTPProxy
        return cls(proxy_url=px["url"], proxy_auth=auth, proxy_headers=headers,
                   proxy_ssl_context=pctx, **kw)
    cls = httpcore.ConnectionPool if sync else httpcore.AsyncConnectionPool
    return cls(**kw)


# ---------------------------------------------------------------------------
# API shims: the caller script is written once in async style.


class _Handle:
    __slots__ = ("cm", "resp", "it", "closed", "chunks")

    def __init__(self, cm, resp):
        self.cm = cm
        self.resp = resp
        self.it = None
        self.closed = False
        self.chunks = []


class AsyncApi:
    sync = False

    def __init__(self, world, pool):
        self.world = world
        self.pool = pool

    def make_body(self, data, chunks, oneshot):
        if chunks is None:
            return data
        parts = []
        pos = 0
        for n in chunks:
            parts.append(data[pos:pos + n])
            pos += n

        if oneshot:
            async def gen():
                for p in parts:
                    yield p
            return gen()

        class Re:
            def __aiter__(self):
                async def gen():
                    for p in parts:
                        yield p
                return gen()
        return Re()

    async def request(self, method, url, headers, content, ext):
        return await self.pool.request(method, url, headers=headers, content=content,
                                       extensions=ext)

    async def open(self, method, url, headers, content, ext):
        cm = self.pool.stream(method, url, headers=headers, content=content,
                              extensions=ext)
        resp = await cm.__aenter__()
        return _Handle(cm, resp)

    async def next_chunk(self, h):
        if h.it is None:
            h.it = h.resp.aiter_stream().__aiter__()
        try:
            return await h.it.__anext__()
        except StopAsyncIteration:
            return None

    async def second_access(self, h, how):
        if how == "read":
            return await h.resp.aread()
        return b"".join([c async for c in h.resp.aiter_stream()])

    async def close(self, h):
        if not h.closed:
            h.closed = True
            await h.cm.__aexit__(None, None, None)

    async def exit(self, h, exc):
        """Leave the `async with pool.stream()` block with an exception."""
        try:
            await h.cm.__aexit__(type(exc), exc, exc.__traceback__)
        except BaseException as e2:  # noqa: BLE001
            if e2 is not exc:
                raise

    async def sleep(self, d):
        await self.world.executor.asleep(self.world.now + d)

    async def net_read(self, h, max_bytes, timeout=None):
        return await h.resp.extensions["network_stream"].read(max_bytes, timeout=timeout)

    async def net_write(self, h, data):
        return await h.resp.extensions["network_stream"].write(data)

    async def close_pool(self):
        await self.pool.aclose()


class SyncApi:
    sync = True

    def __init__(self, world, pool):
        self.world = world
        self.pool = pool

    def make_body(self, data, chunks, oneshot):
        if chunks is None:
            return data
        parts = []
        pos = 0
        for n in chunks:
            parts.append(data[pos:pos + n])
            pos += n
        if oneshot:
            return iter(parts)
        return list(parts)

    async def request(self, method, url, headers, content, ext):
        return self.pool.request(method, url, headers=headers, content=content,
                                 extensions=ext)

    async def open(self, method, url, headers, content, ext):
        cm = self.pool.stream(method, url, headers=headers, content=content,
                              extensions=ext)
        resp = cm.__enter__()
        return _Handle(cm, resp)

    async def next_chunk(self, h):
        if h.it is None:
            h.it = iter(h.resp.iter_stream())
        try:
            return next(h.it)
        except StopIteration:
            return None

    async def second_access(self, h, how):
        if how == "read":
            return h.resp.read()
        return b"".join([c for c in h.resp.iter_stream()])

    async def close(self, h):
        if not h.closed:
            h.closed = True
            h.cm.__exit__(None, None, None)

    async def exit(self, h, exc):
        try:
            h.cm.__exit__(type(exc), exc, exc.__traceback__)
        except BaseException as e2:  # noqa: BLE001
            if e2 is not exc:
                raise

    async def sleep(self, d):
        self.world.executor.sleep(d)

    async def net_read(self, h, max_bytes, timeout=None):
        return h.resp.extensions["network_stream"].read(max_bytes, timeout=timeout)

    async def net_write(self, h, data):
        return h.resp.extensions["network_stream"].write(data)

    async def close_pool(self):
        self.pool.close()


def run_sync(coro):
    """Drive an `async def` that never really suspends."""
    try:
        coro.send(None)
    except StopIteration as e:
        return e.value
    coro.close()
    raise HarnessError("sync caller script suspended")


# ---------------------------------------------------------------------------
# caller scripts


def _b(x):
    return x.encode() if isinstance(x, str) else x


_ADDR = re.compile(r"0x[0-9a-fA-F]{6,}")


def exc_record(e):
    cls = type(e)
    mod = cls.__module__
    # (messages of the protocol libraries may quote object addresses)
    return {"exc": cls.__name__, "mod": mod, "msg": _ADDR.sub("0x?", str(e))[:200],
            "documented": isinstance(e, documented_exceptions())}


async def _consume(api, world, name, token, h, consume, out):
    if isinstance(consume, dict) and "hold" in consume:
        await api.sleep(consume["hold"])
    if isinstance(consume, dict) and "upgrade" in consume:
        got = []
        out["net_reads"] = got
        for step in consume["upgrade"]:
            if "read" in step:
                d = await api.net_read(h, step["read"], step.get("timeout"))
                got.append(d)
                world.log("net_read", name, token, step["read"], d)
            elif "write" in step:
                await api.net_write(h, _b(step["write"]))
    elif isinstance(consume, dict) and "upgrade_read_all" in consume:
        spec = consume["upgrade_read_all"]
        got = []
        out["net_reads"] = got
        out["net_max"] = []
        if spec.get("body") == "first":
            # a caller may read the (empty) body of the 101 / CONNECT response before it
            # turns to the network stream, as response.read() does
            while await api.next_chunk(h) is not None:
                pass
        total = 0
        i = 0
        writes = list(spec.get("writes", ()))
        while total < spec["total"]:
            mb = spec["max_bytes"][i % len(spec["max_bytes"])]
            d = await api.net_read(h, mb, spec.get("timeout", 2.0))
            got.append(d)
            out["net_max"].append(mb)
            total += len(d)
            i += 1
            if not d:
                break
            if writes and i % 2 == 0:
                await api.net_write(h, _b(writes.pop(0)))
        for wdata in writes:
            await api.net_write(h, _b(wdata))
        if spec.get("body") == "last":
            while await api.next_chunk(h) is not None:
                pass
    elif consume == "close":
        pass
    else:
        limit = consume.get("chunks") if isinstance(consume, dict) else None
        chunks = []
        n = 0
        while limit is None or n < limit:
            c = await api.next_chunk(h)
            if c is None:
                out["complete"] = True
                break
            chunks.append(c)
            n += 1
            out["body"] = b"".join(chunks)
            if isinstance(consume, dict) and consume.get("slow"):
                await api.sleep(consume["slow"])
        if isinstance(consume, dict) and consume.get("close_pool_midway"):
            # the pool is closed under the open response (a shutdown hook, another part
            # of the program); the caller goes on iterating the body
            await api.close_pool()
            try:
                for _ in range(consume.get("more", 2)):
                    if await api.next_chunk(h) is None:
                        break
                out["after_close"] = None
            except SimAbort:
                raise
            except Exception as e:   # noqa: BLE001
                out["after_close"] = exc_record(e)
        if isinstance(consume, dict) and consume.get("then"):
            # having stopped part-way, the caller asks for the body a second time
            try:
                d = await api.second_access(h, consume["then"])
                out["second_access"] = ("data", len(d), d[:16], d[-16:])
            except SimAbort:
                raise
            except Exception as e:   # noqa: BLE001
                # (the wording names the method, which differs between the variants)
                out["second_access"] = ("exc", type(e).__name__)


async def do_request(api, world, name, oi, op):
    token = _b(op["token"])
    world.cur_token[name] = token
    method = op.get("method", "GET")
    url = op["url"]
    headers = [(_b(k), _b(v)) for k, v in op.get("headers", [])]
    if op.get("token_header", True):
        headers.append((b"x-token", token))
    body = op.get("body")
    content = None
    body_bytes = b""
    if body is not None:
        body_bytes = reqbody_for(token, body["len"]) if "len" in body else _b(body["data"])
        content = api.make_body(body_bytes, body.get("chunks"), body.get("oneshot", True))
    ext = {}
    if op.get("target") is not None and op.get("ext_order") == "target-first":
        # the order of the keys of the caller's extensions dict is the caller's business
        ext["target"] = _b(op["target"])
    if op.get("timeouts") is not None:
        ext["timeout"] = dict(op["timeouts"])
    for k in ("sni_hostname",):
        if op.get(k) is not None:
            ext[k] = op[k]
    if op.get("target") is not None and "target" not in ext:
        ext["target"] = _b(op["target"])
    if op.get("trace"):
        ext["trace"] = world.make_trace(name, token, api.sync)
    out = {"token": token, "phase": "open"}
    headers_before = list(headers)
    out["_hdr_obj"] = (headers, headers_before)
    world.outcomes[(name, oi)] = out
    world.calls[token] = {"caller": name, "op": op, "body": body_bytes,
                          "headers": headers, "t_call": world.now}
    world.log("call", name, token, _b(method), _b(url))
    consume = op.get("consume", "all")
    h = None
    try:
        if op.get("api") == "request":
            resp = await api.request(method, url, headers, content, ext)
            out.update(status=resp.status, headers=list(resp.headers),
                       ext={k: v for k, v in resp.extensions.items()
                            if k in ("http_version", "reason_phrase", "stream_id")},
                       body=resp.content, complete=True, phase="done")
            world.log("ret", name, token, resp.status, len(resp.content))
            return out
        h = await api.open(method, url, headers, content, ext)
        resp = h.resp
        out.update(status=resp.status, headers=list(resp.headers),
                   ext={k: v for k, v in resp.extensions.items()
                        if k in ("http_version", "reason_phrase", "stream_id")},
                   body=b"", complete=False, phase="head")
        world.log("head", name, token, resp.status)
        # from here on the caller behaves like `with pool.stream(...) as response:`
        try:
            await _consume(api, world, name, token, h, consume, out)
        except BaseException as e:
            h.closed = True
            out["phase_at_exit"] = out["phase"]
            await api.exit(h, e)
            raise
        out["phase"] = "closing"
        await api.close(h)
        out["phase"] = "done"
        world.log("ret", name, token, out["status"], len(out["body"]), out["complete"])
    except SimAbort:
        raise
    except Exception as e:
        out.update(exc_record(e))
        out["failed_phase"] = out["phase"]
        out["phase"] = "failed"
        world.log("exc", name, token, out["exc"], out["mod"])
    except BaseException as e:
        # cancellation
        out["cancelled"] = type(e).__name__
        out["failed_phase"] = out["phase"]
        out["phase"] = "cancelled"
        world.log("cancelled", name, token, type(e).__name__)
        raise
    return out


async def caller_script(api, world, name, caller):
    if caller.get("start"):
        await api.sleep(caller["start"])
    for oi, op in enumerate(caller["ops"]):
        k = op["op"]
        if k == "request":
            await do_request(api, world, name, oi, op)
        elif k == "sleep":
            await api.sleep(op["d"])
        elif k == "advance":
            world.now += op["d"]
            world.log("advance", op["d"])
        elif k == "ctx_alpn":
            # another user of the caller's ssl context (a second pool with other
            # switches) sets its own ALPN list on it at this instant
            ctx = getattr(world, "ssl_ctx", None)
            if ctx is not None:
                ctx.alpn = list(op["protos"])
                world.log("ctx_alpn", tuple(op["protos"]))
        elif k == "close_pool":
            await api.close_pool()
            world.log("pool_closed", name)
        elif k == "server_close":
            # close every idle server side wire of an endpoint now
            for wire in world.wires:
                if wire.state == "open" and not wire.peer_closed and \
                        (op.get("endpoint") is None or endpoint_key(wire.endpoint) == op["endpoint"]):
                    from .wire import EOF
                    wire.push(world.now, EOF)
                    wire.peer_closed = True
                    world.log("srv_forced_close", wire.id)
                    world.stats["hostile:forced_close"] += 1
        else:
            raise HarnessError(f"unknown op {k}")
    world.log("caller_done", name)


# ---------------------------------------------------------------------------


async def probe_requests(api, world, scn, n, tag="probe"):
    """C05's behavioural arbiter: n fresh requests to fresh origins, concurrently
    issued one after another must all obtain a connection (pool timeout small)."""
    res = []
    # first the origins the scenario used: whatever connection is still pooled for them
    # must be reusable (or be replaced), then fresh origins: full capacity is available
    reuse = []
    for i, url in enumerate(scn.get("probe_reuse", ())):
        tok = f"reuse{i}".encode()
        world.cur_token[world.ctx_name()] = tok
        try:
            r = await api.request("GET", url, [(b"x-token", tok)], None,
                                  {"timeout": {"pool": 5.0, "connect": 5.0, "read": 5.0,
                                               "write": 5.0}})
            reuse.append(r.status)
        except Exception as e:
            reuse.append(type(e).__name__)
            world.reuse_msgs = getattr(world, "reuse_msgs", []) + [str(e)]
    if reuse:
        world.log("probe_reuse", tuple(reuse))
    world.reuse_result = reuse
    for i in range(n):
        tok = f"{tag}{i}".encode()
        world.cur_token[world.ctx_name()] = tok
        scheme = scn.get("probe_scheme", "http")
        url = f"{scheme}://probe{i}.test/t/{tok.decode()}"
        try:
            r = await api.request("GET", url, [(b"x-token", tok)], None,
                                  {"timeout": {"pool": 5.0, "connect": 5.0, "read": 5.0,
                                               "write": 5.0}})
            res.append(r.status)
        except Exception as e:
            res.append(type(e).__name__)
    world.log("probe", tuple(res))
    return res


def finish(result, world):
    from .oracles import stats_faulty

    world.stats_faulty = stats_faulty(world)
    result.world = world
    result.outcomes = world.outcomes
    result.violations = list(world.violations)
    result.digest = world.ledger.digest()
    return result


def scenario_digest(scn):
    return hashlib.sha256(canon(scn).encode()).hexdigest()[:16]


def run_scenario(scn, observers=()):
    """Execute one scenario.  observers: objects with optional methods
    setup(world, pool), on_change(), on_quiescent(), post(result)."""
    ex = scn.get("exec", "asyncio")
    if ex == "asyncio":
        from .run_async import run_async

        return run_async(scn, observers)
    if ex == "threads":
        from .run_threads import run_threads

        return run_threads(scn, observers)
    if ex == "trio":
        from .run_trio import run_trio

        return run_trio(scn, observers)
    raise HarnessError(f"unknown executor {ex}")
