"""Check runner: seeded search over families of scenarios on forked workers, known
findings, minimisation, replay files, evidence."""
from __future__ import annotations

import collections
import faulthandler
import hashlib
import json
import multiprocessing as mp
import os
import sys
import time
import traceback
from multiprocessing.connection import wait as mp_wait

from .core import HarnessError, canon, jdump, jload_bytes, sub_seed

VERIF = os.path.dirname(os.path.dirname(os.path.abspath(__file__)))
EVIDENCE_DIR = os.environ.get("VERIF_EVIDENCE_DIR") or os.path.join(VERIF, "evidence")
REPLAY_DIR = os.environ.get("VERIF_REPLAY_DIR") or os.path.join(VERIF, "replays")
KNOWN_FILE = os.path.join(VERIF, "KNOWN_FINDINGS.txt")

COMPONENTS = {
    "real": ["httpcore (pool, connections, HTTP/1.1, HTTP/2, proxies, SOCKS, models, "
             "_synchronization)", "h11", "h2/hpack/hyperframe (client side)", "socksio",
             "anyio primitives", "asyncio Task/Future machinery", "real OS threads (sync)"],
    "stub": ["event-loop scheduling policy and clock (SimLoop)", "thread scheduler and "
             "threading.Lock/Event/Semaphore (baton passing)", "network backend (seam L1; in the "
             "L2 families the real AnyIOBackend / TrioBackend / SyncBackend run above fake "
             "anyio / trio streams and fake sockets)",
             "all peers: origin servers, HTTP proxies, SOCKS5 proxy", "TLS cryptography "
             "(absent; TLS is a transparent recorded layer)"],
}


class Unit:
    """Result of one unit of work (one or several executions)."""

    def __init__(self):
        self.evals = 0
        self.nontrivial = set()
        self.digests = set()
        self.sim_seconds = 0.0
        self.steps = 0
        self.stats = collections.Counter()
        self.probes = collections.Counter()
        self.viols = []          # dicts
        self.samples = []
        self.inconclusive = 0
        self.inconcl = []          # scenarios that hit the step cap (kept for inspection)
        self.states = set()
        self.execs = collections.Counter()
        self.exhaustive = None
        self.extra = {}

    def add_result(self, res, scn, prop, nontrivial=None, keep_sample=False):
        w = res.world
        self.evals += 1
        d = res.digest[:16]
        self.digests.add(d)
        if nontrivial is None:
            nontrivial = w.stats_faulty or len(scn.get("callers", ())) > 1
        if nontrivial:
            self.nontrivial.add(d)
        self.sim_seconds += w.now
        self.steps += res.info.get("steps", 0)
        self.stats.update(w.stats)
        self.probes.update(w.probes)
        self.execs[scn.get("exec", "asyncio")] += 1
        if res.error == "stepcap":
            self.inconclusive += 1
            if len(self.inconcl) < 2:
                self.inconcl.append((scn, res.digest))
        st = res.info.get("pool_states")
        if st:
            self.states |= st
        for (p, sig, detail) in res.violations:
            if p == prop:
                self.viols.append({"prop": p, "sig": sig, "detail": _short(detail),
                                   "scenario": scn, "digest": res.digest})
        if keep_sample and len(self.samples) < 2:
            self.samples.append(scn)

    def merge(self, o):
        self.evals += o.evals
        self.nontrivial |= o.nontrivial
        self.digests |= o.digests
        self.sim_seconds += o.sim_seconds
        self.steps += o.steps
        self.stats.update(o.stats)
        self.probes.update(o.probes)
        self.viols.extend(o.viols)
        if len(self.samples) < 4:
            self.samples.extend(o.samples[: 4 - len(self.samples)])
        self.inconclusive += o.inconclusive
        if len(self.inconcl) < 4:
            self.inconcl.extend(o.inconcl[: 4 - len(self.inconcl)])
        self.states |= o.states
        self.execs.update(o.execs)
        if o.exhaustive is not None:
            self.exhaustive = o.exhaustive if self.exhaustive is None else (
                self.exhaustive and o.exhaustive)
        for k, v in o.extra.items():
            if isinstance(v, (int, float)):
                self.extra[k] = self.extra.get(k, 0) + v
            else:
                self.extra[k] = v


def _short(detail):
    s = repr(detail)
    return s if len(s) < 1500 else s[:1500] + "..."


class Family:
    """A family = generator + oracle set.  Subclasses implement run_unit()."""

    name = "family"
    prop = None
    rule = ""

    def units(self, tier):
        return 100

    def run_unit(self, seed, index, tier) -> Unit:
        raise NotImplementedError

    # replay of one scenario document (used by minimiser / --replay)
    def run_scenario(self, scn):
        raise NotImplementedError

    def violations_of(self, scn):
        """-> (list of (sig, detail), digest)"""
        res = self.run_scenario(scn)
        return [(s, d) for (p, s, d) in res.violations if p == self.prop], res.digest

    def shrinkers(self):
        from .minimise import DEFAULT_SHRINKERS

        return DEFAULT_SHRINKERS


# ---------------------------------------------------------------------------
# worker processes


def _worker(conn, prop, tier, seed):
    try:
        from . import props

        fams = props.families(prop)
        for f in fams:
            f.check_seed = seed
        while True:
            msg = conn.recv()
            if msg is None:
                break
            fi, lo, hi, tmo = msg
            faulthandler.dump_traceback_later(tmo + 30, exit=True)
            fam = fams[fi]
            total = Unit()
            err = None
            try:
                for i in range(lo, hi):
                    total.merge(fam.run_unit(sub_seed(seed, prop, fam.name, i), i, tier))
            except BaseException:  # noqa: BLE001
                err = traceback.format_exc()
            faulthandler.cancel_dump_traceback_later()
            conn.send((fi, lo, hi, total, err))
    except (EOFError, KeyboardInterrupt):
        pass
    finally:
        try:
            conn.close()
        except Exception:  # noqa: BLE001
            pass


class Supervisor:
    def __init__(self, prop, tier, seed, jobs):
        self.prop, self.tier, self.seed, self.jobs = prop, tier, seed, jobs
        self.ctx = mp.get_context("fork")
        self.workers = []

    def _spawn(self):
        a, b = self.ctx.Pipe()
        p = self.ctx.Process(target=_worker, args=(b, self.prop, self.tier, self.seed),
                             daemon=True)
        p.start()
        b.close()
        return {"proc": p, "conn": a, "task": None, "t0": 0.0}

    def run(self, tasks, deadline, chunk_timeout):
        """tasks: list of (family index, lo, hi).  Returns (results, harness_errors,
        skipped)."""
        pending = collections.deque(tasks)
        results, errors = [], []
        skipped = 0
        self.workers = [self._spawn() for _ in range(min(self.jobs, max(1, len(tasks))))]
        active = 0
        try:
            while pending or active:
                now = time.time()
                for wk in self.workers:
                    if wk["task"] is None and pending:
                        if now > deadline:
                            skipped += len(pending)
                            pending.clear()
                            break
                        t = pending.popleft()
                        wk["task"] = t
                        wk["t0"] = now
                        wk["conn"].send(t + (chunk_timeout,))
                        active += 1
                if not active:
                    break
                ready = mp_wait([wk["conn"] for wk in self.workers if wk["task"] is not None],
                                timeout=1.0)
                now = time.time()
                for wk in self.workers:
                    if wk["task"] is None:
                        continue
                    if wk["conn"] in ready:
                        try:
                            fi, lo, hi, unit, err = wk["conn"].recv()
                        except (EOFError, OSError):
                            errors.append(f"worker died on task {wk['task']}")
                            self._replace(wk)
                            active -= 1
                            continue
                        if err:
                            errors.append(err)
                        results.append((fi, unit))
                        wk["task"] = None
                        active -= 1
                    elif now - wk["t0"] > chunk_timeout:
                        errors.append(f"worker timed out on task {wk['task']}")
                        self._replace(wk)
                        active -= 1
        finally:
            for wk in self.workers:
                try:
                    wk["conn"].send(None)
                except Exception:  # noqa: BLE001
                    pass
            for wk in self.workers:
                wk["proc"].join(2.0)
                if wk["proc"].is_alive():
                    wk["proc"].kill()
        return results, errors, skipped

    def _replace(self, wk):
        try:
            wk["proc"].kill()
        except Exception:  # noqa: BLE001
            pass
        new = self._spawn()
        wk.update(new)
        wk["task"] = None


# ---------------------------------------------------------------------------
# known findings


def load_known(prop):
    """-> (open findings [dict], fixed [dict])"""
    open_, fixed = [], []
    if not os.path.exists(KNOWN_FILE):
        return open_, fixed
    for line in open(KNOWN_FILE):
        line = line.strip()
        if not line or line.startswith("#"):
            continue
        head, _, text = line.partition(" :: ")
        kind, _, rest = head.partition(":")
        fields = dict(f.split("=", 1) for f in rest.split() if "=" in f)
        if fields.get("property") != prop:
            continue
        fields["text"] = text
        if kind == "finding":
            open_.append(fields)
        elif kind == "fixed":
            fixed.append(fields)
    return open_, fixed


def sig_matches(known_sig, sig):
    return known_sig == sig


# ---------------------------------------------------------------------------
# replay files


def write_replay(prop, fam, sig, scn, digest, seed, directory=None):
    directory = directory or REPLAY_DIR
    os.makedirs(directory, exist_ok=True)
    h = hashlib.sha256((sig + canon(scn)).encode()).hexdigest()[:10]
    safe = "".join(c if c.isalnum() or c in "-_." else "_" for c in sig)[:60]
    path = os.path.join(directory, f"{prop}-{safe}-{h}.json")
    doc = {"property": prop, "family": fam, "signature": sig, "seed": seed,
           "digest": digest, "scenario": scn}
    with open(path, "w") as f:
        f.write(jdump(doc, indent=1, sort_keys=True))
    return path


def load_replay(path):
    doc = json.load(open(path))
    doc["scenario"] = jload_bytes(doc["scenario"])
    return doc


def replay(path, quiet=False):
    """Re-execute a replay file.  -> (reproduced: bool, same_digest: bool, sigs)"""
    from . import props

    doc = load_replay(path)
    fam = props.family_by_name(doc["property"], doc["family"])
    fam.check_seed = doc.get("seed", 0)
    viols, digest = fam.violations_of(doc["scenario"])
    sigs = [s for s, _ in viols]
    return doc["signature"] in sigs, digest == doc.get("digest"), sigs, doc


# ---------------------------------------------------------------------------
# the check


def run_check(prop, tier="quick", seed=0, jobs=None, budget_s=None):
    from . import props
    from .minimise import minimise

    t0 = time.time()
    jobs = jobs or int(os.environ.get("VERIF_JOBS", "16"))
    fams = props.families(prop)
    only = os.environ.get("VERIF_FAMILIES")
    if only:
        # development aid (soaking single families); never set by the registered commands.
        # The workers index the full list, so the others stay in place with no units.
        class _Skip:
            def __init__(self, f):
                self.name, self.chunk = f.name, getattr(f, "chunk", 1)

            def units(self, tier):
                return 0

        fams = [f if f.name in only.split(",") else _Skip(f) for f in fams]
    meta = props.META[prop]
    if budget_s is None:
        budget_s = float(os.environ.get("VERIF_BUDGET_S", "42" if tier == "quick" else "900"))
    deadline = t0 + budget_s
    out_lines = []
    exit_code = 0
    harness_errors = []

    # 1. committed findings first, so that the output does not depend on the seed
    known_open, known_fixed = load_known(prop)
    known_matched = collections.Counter()
    for k in known_open:
        path = os.path.join(VERIF, k["replay"])
        try:
            ok, same, sigs, doc = replay(path)
        except Exception:  # noqa: BLE001
            harness_errors.append("replay of known finding failed:\n" + traceback.format_exc())
            continue
        if ok:
            print(f"KNOWN-FINDING: property={prop} {k['id']} {k['text']}")
        else:
            print(f"NOTE: known finding {k['id']} no longer reproduces (signatures seen: {sigs})")
    violations = []   # (fam name, viol dict)
    for k in known_fixed:
        path = os.path.join(VERIF, k["replay"])
        try:
            ok, same, sigs, doc = replay(path)
        except Exception:  # noqa: BLE001
            harness_errors.append("replay of fixed finding failed:\n" + traceback.format_exc())
            continue
        if ok:
            violations.append((doc["family"], {"prop": prop, "sig": doc["signature"],
                                               "detail": "fixed finding is back",
                                               "scenario": doc["scenario"],
                                               "digest": doc.get("digest")}))

    # 2. seeded search
    tasks = []
    for fi, fam in enumerate(fams):
        n = fam.units(tier)
        chunk = max(1, min(getattr(fam, "chunk", 20), (n + jobs * 2 - 1) // (jobs * 2)))
        for lo in range(0, n, chunk):
            tasks.append((fi, lo, min(n, lo + chunk)))
    # interleave families so that a deadline cuts all of them proportionally
    tasks.sort(key=lambda t: (t[1] / max(1, fams[t[0]].units(tier)), t[0]))
    sup = Supervisor(prop, tier, seed, jobs)
    results, errs, skipped = sup.run(tasks, deadline,
                                     chunk_timeout=float(os.environ.get(
                                         "VERIF_CHUNK_TIMEOUT", "300" if tier == "quick" else "1800")))
    harness_errors.extend(errs)
    per_fam = {}
    total = Unit()
    for fi, unit in results:
        per_fam.setdefault(fams[fi].name, Unit()).merge(unit)
        total.merge(unit)
        for v in unit.viols:
            violations.append((fams[fi].name, v))

    # 3. classify violations individually
    new_by_sig = {}
    for famname, v in violations:
        k = next((k for k in known_open if sig_matches(k["sig"], v["sig"])), None)
        if k is not None:
            known_matched[k["id"]] += 1
            continue
        new_by_sig.setdefault((famname, v["sig"]), v)
    replay_paths = []
    for (famname, sig), v in sorted(new_by_sig.items(), key=lambda kv: kv[0]):
        fam = props.family_by_name(prop, famname)
        scn, digest = v["scenario"], v["digest"]
        try:
            if time.time() < deadline + 120:
                scn, digest = minimise(fam, scn, sig, budget=150 if tier == "quick" else 400,
                                       deadline=time.time() + 60)
        except Exception:  # noqa: BLE001
            harness_errors.append("minimiser failed:\n" + traceback.format_exc())
        path = write_replay(prop, famname, sig, scn, digest, seed)
        replay_paths.append(path)
        print(f"VIOLATION property={prop} replay={path}")
        print(f"  family={famname} signature={sig}")
        print(f"  detail={v['detail'][:600]}")
        exit_code = 1

    wall = time.time() - t0
    # 4. evidence
    evals = total.evals
    ev = {
        "property_id": prop,
        "tier": tier,
        "seed": int(seed),
        "level": meta["level"],
        "wall_s": round(wall, 2),
        "violations": len(new_by_sig),
        "coverage": {
            "evaluations": evals,
            "distinct_nontrivial": len(total.nontrivial),
            "rule": meta["rule"],
            "samples": total.samples[:3],
            "distinct_executions": len(total.digests),
            "runs_per_hour": int(evals / wall * 3600) if wall > 0 else 0,
            "seeds": {"VERIF_SEED": int(seed),
                      "derivation": "sha256(VERIF_SEED/property/family/index) per unit"},
            "simulated_seconds": round(total.sim_seconds, 3),
            "scheduler_steps": total.steps,
            "fault_fired": {k: v for k, v in sorted(total.stats.items())},
            "probes": {k: v for k, v in sorted(total.probes.items())},
            "distinct_pool_states": len(total.states),
            "executors": dict(total.execs),
            "inconclusive": total.inconclusive,
            "known_findings_matched": dict(known_matched),
            "families": {name: {"evaluations": u.evals,
                                "distinct_nontrivial": len(u.nontrivial),
                                "units_planned": next(f.units(tier) for f in fams if f.name == name)}
                         for name, u in sorted(per_fam.items())},
            "units_skipped_at_deadline": skipped,
            "components": COMPONENTS,
            "harness_errors": len(harness_errors),
        },
        "assumptions": meta.get("assumptions", []),
    }
    if total.exhaustive is not None:
        ev["coverage"]["exhaustive"] = bool(total.exhaustive) and skipped == 0
    for k, v in total.extra.items():
        ev["coverage"][k] = v
    # runs that hit the step cap without spinning are neither passes nor violations:
    # their scenarios are kept next to the replays for inspection
    for name, u in sorted(per_fam.items()):
        for scn, digest in u.inconcl:
            pth = write_replay(prop, name, "inconclusive-stepcap", scn, digest, seed)
            print(f"NOTE: inconclusive run (step cap) family={name} scenario={pth}")
    os.makedirs(EVIDENCE_DIR, exist_ok=True)
    with open(os.path.join(EVIDENCE_DIR, f"{prop}.json"), "w") as f:
        f.write(jdump(ev, indent=1, sort_keys=True))
    print(f"{prop} tier={tier} seed={seed}: {evals} executions "
          f"({len(total.nontrivial)} distinct non-trivial), {len(new_by_sig)} violation(s), "
          f"{sum(known_matched.values())} matched known findings, "
          f"{total.inconclusive} inconclusive, {wall:.1f}s")
    if harness_errors:
        print(f"HARNESS-ERROR: {len(harness_errors)} error(s); first:\n{harness_errors[0][:3000]}",
              file=sys.stderr)
        if exit_code == 0:
            exit_code = 2
    if evals and total.inconclusive > 0.01 * evals and exit_code == 0:
        print("HARNESS-ERROR: more than 1% of the runs hit the step cap", file=sys.stderr)
        exit_code = 2
    if evals == 0 and exit_code == 0:
        exit_code = 2
    return exit_code
