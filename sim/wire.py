"""Wire: one simulated TCP connection, written once as plain generators.

A wire operation is a generator that yields an absolute virtual time (float) or None
("forever") at which it wants to be resumed (earlier if the wire is notified) and
finally returns a value or raises WireError(kind).  Three drivers run them (asyncio
SimLoop, thread scheduler, trio); see backends.py.

The peer (server side) is passive: a sans-I/O state machine evaluated only when the
client touches the wire.
"""
from __future__ import annotations

EOF = "EOF"
RESET = "RESET"

FAULTS_FOR = {
    "connect": ("connect_error", "connect_timeout"),
    "tls": ("tls_error", "tls_timeout"),
    "recv": ("read_error", "read_timeout", "eof"),
    "send": ("write_error", "write_timeout"),
}


class WireError(Exception):
    def __init__(self, kind, msg=""):
        super().__init__(f"{kind}: {msg}" if msg else kind)
        self.kind = kind


class Net:
    """The simulated network: endpoints -> peer factories, latency/segmentation policy,
    fault schedule."""

    def __init__(self, world, cfg, peer_factory):
        self.w = world
        self.cfg = cfg
        self.latency = cfg.get("latency", "small")
        self.seg = cfg.get("seg", "whole")
        self.close_latency = cfg.get("close_latency", 0.0)
        self.fault_rates = cfg.get("fault_rates", {})
        self.peer_factory = peer_factory  # (endpoint) -> Peer or None
        self.attempts = 0
        self._once_done = False

    # -- helpers ------------------------------------------------------------
    def next_op(self, kind, wire_id, *info):
        w = self.w
        w.opcount += 1
        n = w.opcount
        name = w.ctx_name()
        w.log("op", n, kind, wire_id, name, w.cur_token.get(name),
              w.ctx_site() if w.log_sites else None, *info)
        f = w.faults_by_op.get(n)
        fault = None
        if f is not None:
            if f["kind"] in FAULTS_FOR.get(kind, ()):
                fault = f["kind"]
            elif f["kind"] == "auto" and kind in FAULTS_FOR:
                opts = FAULTS_FOR[kind]
                fault = opts[f.get("variant", 0) % len(opts)]
        elif self.cfg.get("fault_once") in FAULTS_FOR.get(kind, ()) and not self._once_done:
            self._once_done = True
            fault = self.cfg["fault_once"]
        elif self.fault_rates and kind in FAULTS_FOR:
            r = w.rng("fault")
            for k in FAULTS_FOR[kind]:
                p = self.fault_rates.get(k)
                if p and r.random() < p:
                    fault = k
                    break
        if fault:
            w.stats["fault:" + fault] += 1
            site = w.ctx_site()
            w.log("fault", n, fault, wire_id, kind, site)
            w.fault_sites.append((n, fault, kind, site))
        return n, fault

    def lat(self, wid):
        mode = self.latency
        if mode == "zero":
            return 0.0
        r = self.w.rng(f"lat/{wid}")
        if mode == "small":
            return r.random() * 0.01
        if mode == "fixed":
            return 0.005
        # heavy tail
        x = r.random()
        if x < 0.85:
            return r.random() * 0.01
        if x < 0.97:
            return r.random() * 0.2
        return 0.2 + r.random() * 2.0

    # -- operations -----------------------------------------------------------
    def connect(self, endpoint, timeout):
        """endpoint: (host, port) or ("unix", path)."""
        w = self.w
        n, fault = self.next_op("connect", -1, endpoint, timeout)
        start = w.now
        deadline = None if timeout is None else start + timeout
        lat = self.lat("connect")
        peer = self.peer_factory(endpoint)
        # scripted outcome per connection attempt (C20)
        script = self.cfg.get("connect_script")
        tls_outcome = None
        if script is not None:
            i = self.attempts
            self.attempts += 1
            oc = script[i] if i < len(script) else "ok"
            w.log("attempt", i, oc)
            if oc == "ce_tcp":
                fault = "connect_error"
            elif oc == "ct_tcp":
                fault = "connect_timeout" if deadline is not None else "connect_error"
            elif oc == "other_tcp":
                fault = "other"
            elif oc in ("ce_tls", "ct_tls", "other_tls"):
                tls_outcome = oc
            if fault:
                w.stats["fault:" + fault] += 1
        if fault == "connect_timeout" and deadline is None:
            if self.cfg.get("l2"):
                while True:      # stalls until the real backend's own time-out cancels it
                    yield None
            fault = "connect_error"
        if fault == "connect_timeout" or (deadline is not None and start + lat > deadline):
            if fault != "connect_timeout":
                w.stats["fault:natural_timeout"] += 1
            if deadline > w.now:
                yield deadline
            while w.now < deadline:
                yield deadline
            raise WireError("connect_timeout")
        t = start + lat
        yield t
        while w.now < t:
            yield t
        if fault == "connect_error":
            raise WireError("connect_error", "injected")
        if fault == "other":
            raise WireError("other", "injected")
        if peer is None:
            raise WireError("connect_error", "connection refused")
        wire = Wire(self, endpoint, peer)
        wire.tls_outcome = tls_outcome
        return wire


class TLSLayer:
    def __init__(self, sni, offered, selected):
        self.sni = sni
        self.offered = offered
        self.selected = selected


class Wire:
    def __init__(self, net, endpoint, peer):
        self.net = net
        self.w = w = net.w
        self.id = len(w.wires)
        w.wires.append(self)
        self.endpoint = endpoint
        self.peer = peer
        self.state = "open"          # open | closing | closed
        self.inq = []                # [t, data|EOF|RESET]
        self.tls = []                # TLSLayer stack
        self.waiters = []            # executor wake handles
        self.opened_by = w.ctx_name()
        self.opened_at = w.now
        self.closed_by = None
        self.close_site = None
        self.peer_closed = False     # server will not read any more
        self.nread = 0               # bytes delivered to the client
        self.nsent = 0               # bytes delivered to the server
        self.npushed = 0             # bytes the server has queued so far
        self._last_push = 0.0
        self._dropped = False
        self._corrupt = None
        self._raw_off = 0
        c = net.cfg.get("corrupt")
        if c is not None and c.get("wire", 0) in (self.id, "all"):
            self._corrupt = [dict(o) for o in c["ops"]]
        w.log("wire_open", self.id, endpoint, self.opened_by)
        peer.attach(self)
        peer.on_open(w.now)
        w.changed()

    # -- server side ----------------------------------------------------------
    def push(self, t, data, atomic=False):
        """Server -> client item, available at time t (kept FIFO).  An atomic item is
        never coalesced with others nor cut (unless larger than max_bytes)."""
        t = max(t, self._last_push)
        self._last_push = t
        if self._corrupt is not None and data is not EOF and data is not RESET and data:
            data = self._apply_corruption(t, data)
            if data is None:
                return
        if self._dropped:
            return
        if data is EOF or data is RESET or data:
            self.inq.append([t, data, atomic])
            if data is not EOF and data is not RESET:
                self.npushed += len(data)

    def _apply_corruption(self, t, data):
        """Corrupting peer (C15): mutate the server->client byte stream at absolute
        offsets of the uncorrupted stream."""
        import random as _random

        w = self.w
        off = self._raw_off
        self._raw_off += len(data)
        out = bytearray(data)
        shift = 0
        for o in self._corrupt:
            if o.get("done"):
                continue
            at = o["at"]
            if not (off <= at < off + len(data)):
                continue
            o["done"] = True
            i = at - off + shift
            kind = o["kind"]
            rr = _random.Random(o.get("seed", 0))
            w.stats["hostile:corrupt_" + kind] += 1
            w.log("corrupt", self.id, kind, at)
            if kind == "flip":
                out[i] ^= 1 << rr.randrange(8)
            elif kind == "set":
                out[i] = o.get("byte", rr.randrange(256))
            elif kind == "insert":
                junk = bytes(rr.randrange(256) for _ in range(o.get("n", 4)))
                out[i:i] = junk
                shift += len(junk)
            elif kind == "delete":
                n = o.get("n", 1)
                del out[i:i + n]
                shift -= n
            elif kind == "dup":
                n = o.get("n", 8)
                seg = bytes(out[i:i + n])
                out[i:i] = seg
                shift += len(seg)
            elif kind in ("eof", "reset"):
                del out[i:]
                if out:
                    self.inq.append([t, bytes(out), False])
                    self.npushed += len(out)
                self.inq.append([t, EOF if kind == "eof" else RESET, False])
                self._dropped = True
                self.peer_closed = True
                return None
            elif kind == "garbage":
                n = o.get("n", 64)
                del out[i:]
                out += bytes(rr.randrange(256) for _ in range(n))
                self.inq.append([t, bytes(out), False])
                self.npushed += len(out)
                self.inq.append([t + 0.001, EOF, False])
                self._dropped = True
                self.peer_closed = True
                return None
        return bytes(out)

    def notify(self):
        ws, self.waiters = self.waiters, []
        ex = self.w.executor
        for h in ws:
            ex.wake(h)

    def _run_peer(self):
        self.peer.run_timers(self.w.now)

    def _next_times(self):
        c = []
        if self.inq:
            c.append(self.inq[0][0])
        t = self.peer.next_timer()
        if t is not None:
            c.append(t)
        return c

    # -- client operations (generators) ---------------------------------------
    def recv(self, max_bytes, timeout):
        w = self.w
        n, fault = self.net.next_op("recv", self.id, timeout, max_bytes)
        start = w.now
        deadline = None if timeout is None else start + timeout
        lat = self.net.lat(self.id)
        t = start + lat
        if fault == "read_timeout" and deadline is None:
            if self.net.cfg.get("l2"):
                while self.state == "open":
                    yield None
                raise WireError("read_error", "closed locally")
            fault = "read_error"
        if fault == "read_timeout":
            while w.now < deadline:
                yield deadline
                if self.state != "open":
                    raise WireError("read_error", "closed locally")
            raise WireError("read_timeout", "injected")
        # every operation yields at least once
        first = True
        while first or w.now < t:
            first = False
            if deadline is not None and t > deadline:
                w.stats["fault:natural_timeout"] += 1
                while w.now < deadline:
                    yield deadline
                raise WireError("read_timeout")
            yield t
        if self.state != "open":
            raise WireError("read_error", "closed locally")
        if fault == "read_error":
            self._break(discard=True)
            raise WireError("read_error", "injected")
        if fault == "eof":
            # the server side vanishes: pending output is lost, FIN arrives now
            self.inq = [[w.now, EOF, False]]
            self.peer_closed = True
            self.peer.on_abort(w.now)
        while True:
            if self.state != "open":
                raise WireError("read_error", "closed locally")
            self._run_peer()
            if self.inq and self.inq[0][0] <= w.now:
                item = self.inq[0][1]
                if item is EOF:
                    w.log("s2c", self.id, n, EOF)
                    return b""
                if item is RESET:
                    w.log("s2c", self.id, n, RESET)
                    raise WireError("read_error", "connection reset")
                data = self._take(max_bytes)
                self.nread += len(data)
                w.log("s2c", self.id, n, data)
                return data
            if deadline is not None and w.now >= deadline:
                w.stats["fault:natural_timeout"] += 1
                raise WireError("read_timeout")
            c = self._next_times()
            if deadline is not None:
                c.append(deadline)
            yield (min(c) if c else None)

    def _break(self, discard):
        """Injected connection reset: the peer is gone for good.  What it had already
        put on the wire stays readable after a failed write (the response may have been
        in flight) and is lost after a failed read; from then on the socket is readable
        and every read fails, as on a real reset socket."""
        w = self.w
        if discard:
            self.inq = []
        else:
            self.inq = [it for it in self.inq if it[1] is not EOF and it[1] is not RESET]
        t = max([w.now] + [it[0] for it in self.inq])
        self.inq.append([t, RESET, False])
        self._dropped = True
        self.peer_closed = True
        self.peer.on_abort(w.now)

    def _take(self, max_bytes):
        w = self.w
        mode = self.net.seg
        # gather what is available now
        if self.inq[0][2]:
            avail = self.inq[0][1]
            k = min(len(avail), max_bytes)
        elif mode == "segment":
            avail = self.inq[0][1]
            k = min(len(avail), max_bytes)
        else:
            parts = []
            tot = 0
            for t, d, at in self.inq:
                if t > w.now or d is EOF or d is RESET or at or tot >= max_bytes:
                    break
                parts.append(d)
                tot += len(d)
            avail = b"".join(parts)
            lim = min(len(avail), max_bytes)
            if mode == "whole":
                k = lim
            elif mode == "byte":
                k = 1
            elif mode == "random":
                r = w.rng(f"cut/{self.id}")
                k = r.randint(1, lim) if r.random() < 0.7 else min(lim, r.randint(1, 16))
            elif mode == "evil":
                r = w.rng(f"cut/{self.id}")
                cands = []
                pos = avail.find(b"\r", 0, lim)
                while pos != -1 and len(cands) < 8:
                    if pos + 1 <= lim:
                        cands.append(pos + 1)
                    pos = avail.find(b"\r", pos + 1, lim)
                cands += [x for x in (1, 3, 8, 9, 10) if x <= lim]
                k = r.choice(cands) if cands and r.random() < 0.8 else r.randint(1, lim)
                w.probes["evil_cut"] += 1
            else:
                raise ValueError(mode)
        # consume k bytes from the queue
        out = []
        need = k
        while need > 0:
            t, d, _at = self.inq[0]
            if len(d) <= need:
                out.append(d)
                need -= len(d)
                self.inq.pop(0)
            else:
                out.append(d[:need])
                self.inq[0][1] = d[need:]
                need = 0
        return b"".join(out)

    def send(self, data, timeout):
        w = self.w
        n, fault = self.net.next_op("send", self.id, timeout, len(data))
        start = w.now
        deadline = None if timeout is None else start + timeout
        if self.state != "open":
            yield w.now
            raise WireError("write_error", "closed locally")
        lat = self.net.lat(self.id)
        t = start + lat
        if fault == "write_timeout" and deadline is None:
            if self.net.cfg.get("l2"):
                self._deliver(n, self._prefix(data))
                while self.state == "open":
                    yield None
                raise WireError("write_error", "closed locally")
            fault = "write_error"
        delivered = False
        try:
            if fault == "write_timeout" or (deadline is not None and t > deadline):
                if fault != "write_timeout":
                    w.stats["fault:natural_timeout"] += 1
                self._deliver(n, self._prefix(data))
                delivered = True
                while w.now < deadline:
                    yield deadline
                raise WireError("write_timeout")
            first = True
            while first or w.now < t:
                first = False
                yield t
            if self.state != "open":
                delivered = True
                raise WireError("write_error", "closed locally")
            if fault == "write_error":
                delivered = True
                self._deliver(n, self._prefix(data))
                self._break(discard=False)
                raise WireError("write_error", "injected")
            if self.peer_closed:
                delivered = True
                raise WireError("write_error", "broken pipe")
            delivered = True
            self._deliver(n, data)
        except GeneratorExit:
            # abandoned (cancelled) write: a PRNG-chosen prefix went out
            if not delivered and self.state == "open" and not self.peer_closed:
                self._deliver(n, self._prefix(data))
                w.stats["torn_write"] += 1
            raise

    def _prefix(self, data):
        r = self.w.rng(f"torn/{self.id}")
        x = r.random()
        if x < 0.25:
            return b""
        if x < 0.4:
            return data
        return data[: r.randint(0, len(data))]

    def _deliver(self, n, data):
        if not data or self.peer_closed:
            return
        w = self.w
        self.nsent += len(data)
        name = w.ctx_name()
        w.log("c2s", self.id, n, name, w.cur_token.get(name), data)
        self._run_peer()
        self.peer.on_data(w.now, data)
        self.notify()

    def start_tls(self, sni, offered, timeout):
        w = self.w
        n, fault = self.net.next_op("tls", self.id, sni, tuple(offered or ()), timeout)
        start = w.now
        deadline = None if timeout is None else start + timeout
        lat = self.net.lat(self.id) * 2
        t = start + lat
        if self.state != "open":
            yield w.now
            raise WireError("tls_error", "closed locally")
        oc = getattr(self, "tls_outcome", None)
        if oc is not None:
            self.tls_outcome = None
            fault = {"ce_tls": "tls_error", "ct_tls": "tls_timeout", "other_tls": "other"}[oc]
            w.stats["fault:" + fault] += 1
        if fault == "tls_timeout" and deadline is None:
            if self.net.cfg.get("l2"):
                while self.state == "open":
                    yield None
                raise WireError("tls_error", "closed locally")
            fault = "tls_error"
        if fault == "tls_timeout" or (deadline is not None and t > deadline):
            if fault != "tls_timeout":
                w.stats["fault:natural_timeout"] += 1
            while w.now < deadline:
                yield deadline
            raise WireError("tls_timeout")
        first = True
        while first or w.now < t:
            first = False
            yield t
        if self.state != "open":
            raise WireError("tls_error", "closed locally")
        if fault == "tls_error":
            raise WireError("tls_error", "injected")
        if fault == "other":
            raise WireError("other", "injected")
        self._run_peer()
        sel = self.peer.on_tls(w.now, sni, list(offered or ()))
        if sel is False:
            raise WireError("tls_error", "handshake failure")
        layer = TLSLayer(sni, tuple(offered or ()), sel)
        self.tls.append(layer)
        w.log("tls_up", self.id, len(self.tls), sni, tuple(offered or ()), sel)
        return layer

    def close(self):
        w = self.w
        self.net.next_op("close", self.id)
        if self.state != "open":
            yield w.now
            return
        self.state = "closing"
        self.closed_by = w.ctx_name()
        self.close_site = w.ctx_site()
        w.log("wire_closing", self.id, self.closed_by, self.close_site)
        w.changed()
        self.notify()
        t = w.now + self.net.close_latency
        try:
            first = True
            while first or w.now < t:
                first = False
                yield t
        finally:
            self._closed()

    def _closed(self):
        if self.state != "closed":
            self.state = "closed"
            self.w.log("wire_closed", self.id)
            self.peer.on_client_close(self.w.now)
            self.w.changed()

    def abort(self):
        """Synchronous close (used when a cancelled connect already produced a wire)."""
        if self.state == "open":
            self.state = "closing"
            self.closed_by = "backend"
            self.w.log("wire_closing", self.id, "backend", None)
        self._closed()
        self.notify()

    def readable(self):
        """Synchronous readability poll (is_socket_readable)."""
        if self.state != "open":
            return True
        self._run_peer()
        r = bool(self.inq) and self.inq[0][0] <= self.w.now
        if not self.w.observing:
            self.w.log("poll", self.id, r)
        return r

    def alpn(self):
        return self.tls[-1].selected if self.tls else None


class Peer:
    """Base class of passive peers."""

    wire = None

    def attach(self, wire):
        self.wire = wire
        self.w = wire.w

    def on_open(self, now):
        pass

    def on_tls(self, now, sni, offered):
        """Return the selected ALPN protocol (or None), or False to fail the handshake."""
        return None

    def on_data(self, now, data):
        pass

    def on_client_close(self, now):
        pass

    def on_abort(self, now):
        pass

    def run_timers(self, now):
        pass

    def next_timer(self):
        return None


class TimerMixin:
    """Lazy timers for peers: a heap of (t, seq, fn)."""

    def _tinit(self):
        self._timers = []
        self._tseq = 0

    def at(self, t, fn):
        import heapq

        self._tseq += 1
        heapq.heappush(self._timers, (t, self._tseq, fn))

    def run_timers(self, now):
        import heapq

        while self._timers and self._timers[0][0] <= now:
            t, _, fn = heapq.heappop(self._timers)
            fn(t)

    def next_timer(self):
        return self._timers[0][0] if self._timers else None
