"""HTTP proxy peer: forward mode (absolute-form requests answered as the origin would)
and tunnel mode (CONNECT, reply per plan, then splice to the origin peer)."""
from __future__ import annotations

from .h1 import H1Server


def parse_authority(target: bytes):
    t = target.decode("latin-1")
    if t.startswith("["):
        host, _, rest = t[1:].partition("]")
        port = rest.lstrip(":")
    else:
        host, _, port = t.rpartition(":")
    try:
        return host, int(port)
    except ValueError:
        return None


class HTTPProxyPeer(H1Server):
    def __init__(self, world, cfg, label, factory):
        super().__init__(world, cfg, label)
        self.factory = factory
        self.inner = None
        self.proxy_tls_done = False
        self.connect_target = None

    # -- TLS: first layer is the proxy's own (https proxy), later ones the origin's
    def on_tls(self, now, sni, offered):
        if self.inner is not None:
            return self.inner.on_tls(now, sni, offered)
        if self.tunnel:
            return False
        if not self.cfg.get("tls") or self.proxy_tls_done:
            self.w.log("tls_on_plain_endpoint", self.wire.id, self.label)
            return False
        self.proxy_tls_done = True
        self.w.log("proxy_tls", self.wire.id, self.label, sni, tuple(offered))
        for p in self.cfg.get("alpn", ["http/1.1"]):
            if p in offered:
                return p
        return None

    def on_data(self, now, data):
        if self.inner is None and self.cfg.get("tls") and not self.proxy_tls_done:
            self.w.log("plain_on_tls_endpoint", self.wire.id, self.label)
            from ..wire import RESET

            self.wire.push(now, RESET)
            self.wire.peer_closed = True
            self.closed = True
            return
        super().on_data(now, data)

    def _plan(self, token):
        c = self.cur
        if c is not None and c["method"] == b"CONNECT":
            self.connect_target = c["target"]
            plan = self.cfg.get("connect_plan")
            if plan is None:
                plan = {"status": 200, "reason": b"Connection established",
                        "framing": "none", "header_lines": [], "headers": []}
            if 200 <= plan["status"] < 300:
                auth = parse_authority(c["target"])
                ok = auth is not None and self._origin_exists(auth)
                if not ok:
                    plan = {"status": 502, "reason": b"Bad Gateway", "framing": "cl",
                            "body_len": 0, "header_lines": [b"Content-Length: 0"],
                            "headers": [(b"Content-Length", b"0")]}
            return plan
        return super()._plan(token)

    def _origin_exists(self, auth):
        p = self.factory(auth)
        return p is not None

    def tunnel_start(self, now):
        auth = parse_authority(self.connect_target or b"")
        peer = self.factory(auth) if auth else None
        self.w.log("proxy_tunnel_up", self.wire.id, self.label, self.connect_target)
        if peer is None:
            return
        self.inner = peer
        peer.attach(self.wire)
        peer.on_open(now)

    def tunnel_data(self, now, data):
        if self.inner is not None:
            self.inner.on_data(now, data)
        else:
            super().tunnel_data(now, data)

    def on_client_close(self, now):
        super().on_client_close(now)
        if self.inner is not None:
            self.inner.on_client_close(now)

    def on_abort(self, now):
        super().on_abort(now)
        if self.inner is not None:
            self.inner.on_abort(now)

    def run_timers(self, now):
        super().run_timers(now)
        if self.inner is not None:
            self.inner.run_timers(now)

    def next_timer(self):
        a = super().next_timer()
        b = self.inner.next_timer() if self.inner is not None else None
        if a is None:
            return b
        if b is None:
            return a
        return min(a, b)
