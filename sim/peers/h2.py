"""HTTP/2 origin peer: `h2` in server role (enforces the client's obligations) plus an
independent raw frame ledger (hand-written frame parser + hpack decode) that re-does
stream-count, window and frame-size accounting."""
from __future__ import annotations

import hashlib
import struct

import h2.config
import h2.connection
import h2.errors
import h2.events
import h2.exceptions
import h2.settings
import hpack

from ..wire import EOF, RESET, Peer, TimerMixin
from .h1 import body_for, default_plan

SC = h2.settings.SettingCodes
SETTING_NAMES = {
    "max_concurrent_streams": SC.MAX_CONCURRENT_STREAMS,
    "initial_window_size": SC.INITIAL_WINDOW_SIZE,
    "max_frame_size": SC.MAX_FRAME_SIZE,
    "header_table_size": SC.HEADER_TABLE_SIZE,
    "max_header_list_size": SC.MAX_HEADER_LIST_SIZE,
}
PREFACE = b"PRI * HTTP/2.0\r\n\r\nSM\r\n\r\n"

F_DATA, F_HEADERS, F_PRIORITY, F_RST, F_SETTINGS, F_PUSH, F_PING, F_GOAWAY, F_WU, F_CONT = range(10)


class FrameLedger:
    """Independent decode of the client's byte stream."""

    def __init__(self, world, wire_id, label):
        self.w = world
        self.wid = wire_id
        self.label = label
        self.buf = bytearray()
        self.preface = False
        self.dec = hpack.Decoder()
        self.dec.max_allowed_table_size = 65536
        self.hdr_block = None            # (sid, flags, bytearray)
        self.streams = {}                # sid -> dict
        self.frames = 0
        # what the *server* has advertised (updated by the peer when it sends SETTINGS)
        self.adv = {"max_concurrent_streams": None, "initial_window_size": 65535,
                    "max_frame_size": 16384}
        self.pending_adv = []            # settings sent, not yet ACKed (list of dicts)
        self.adv_mcs = 1                 # client's assumption before the first SETTINGS
        self.max_iws = 65535
        self.settings_acked = 0
        self.conn_window = 65535         # credit the server has granted for client DATA
        self.stream_credit = {}          # sid -> extra credit via WINDOW_UPDATE
        self.stream_used = {}            # sid -> flow-controlled bytes received
        self.problems = []
        self.open_srv = set()            # streams open from the server's view
        self.client_settings = {}

    # the largest value any not-yet-acknowledged or acknowledged SETTINGS allows
    def _lim(self, key):
        vals = [self.adv[key]] + [p[key] for p in self.pending_adv if key in p]
        return max(vals)

    def stream_limit(self):
        """Largest number of concurrently open streams the client may assume: the
        acknowledged value, or any value still in flight (it may or may not have been
        seen); 1 before the first SETTINGS; unlimited (absent) is capped at 100."""
        cands = [self.adv_mcs]
        first = self.settings_acked == 0
        for i, p in enumerate(self.pending_adv):
            if "max_concurrent_streams" in p:
                cands.append(p["max_concurrent_streams"])
            elif first and i == 0:
                cands.append(None)
        vals = [100 if c is None else min(c, 100) for c in cands]
        return max(vals)

    def feed(self, data):
        """-> list of raw complete units (the preface, then one frame each), so that the
        h2 server object can be fed frame by frame."""
        out = []
        self.buf += data
        if not self.preface:
            if len(self.buf) < len(PREFACE):
                return out
            if bytes(self.buf[:len(PREFACE)]) != PREFACE:
                self.problems.append("bad preface")
                out.append(bytes(self.buf))
                self.buf.clear()
                return out
            del self.buf[:len(PREFACE)]
            self.preface = True
            out.append(PREFACE)
        while len(self.buf) >= 9:
            ln = int.from_bytes(self.buf[0:3], "big")
            if ln > 1 << 20:
                # not a plausible frame: hand everything to h2 and let it object
                out.append(bytes(self.buf))
                self.buf.clear()
                return out
            if len(self.buf) < 9 + ln:
                return out
            typ, flags = self.buf[3], self.buf[4]
            sid = int.from_bytes(self.buf[5:9], "big") & 0x7FFFFFFF
            raw = bytes(self.buf[:9 + ln])
            payload = raw[9:]
            del self.buf[:9 + ln]
            self.frames += 1
            self._frame(typ, flags, sid, payload)
            out.append(raw)
        return out

    def _frame(self, typ, flags, sid, payload):
        w = self.w
        if len(payload) > self._lim("max_frame_size"):
            self.problems.append(f"frame of {len(payload)} exceeds max_frame_size")
        if typ == F_HEADERS:
            p = payload
            if flags & 0x8:  # PADDED
                pad = p[0]
                p = p[1:len(p) - pad]
            if flags & 0x20:  # PRIORITY
                p = p[5:]
            self.hdr_block = (sid, flags, bytearray(p))
            if flags & 0x4:
                self._headers_done()
        elif typ == F_CONT:
            if self.hdr_block is None:
                self.problems.append("CONTINUATION without HEADERS")
                return
            self.hdr_block[2].extend(payload)
            if flags & 0x4:
                self._headers_done()
        elif typ == F_DATA:
            st = self.streams.get(sid)
            if st is None or st["client_ended"]:
                self.problems.append(f"DATA on stream {sid} not open for sending")
                return
            n = len(payload)
            body = payload
            if flags & 0x8:
                pad = payload[0]
                body = payload[1:len(payload) - pad]
            used = self.stream_used.get(sid, 0) + n
            # over-approximation of the client's credit (sound): the largest initial
            # window ever advertised (bytes sent before a decrease were legal) plus
            # every WINDOW_UPDATE sent for the stream
            self.max_iws = max(self.max_iws, self._lim("initial_window_size"))
            allowed = self.max_iws + self.stream_credit.get(sid, 0)
            if used > allowed:
                self.problems.append(
                    f"stream {sid} flow control exceeded: {used} > {allowed}")
            self.stream_used[sid] = used
            self.conn_window -= n
            if self.conn_window < 0:
                self.problems.append(f"connection flow control exceeded by {-self.conn_window}")
            st["body"].update(body)
            st["blen"] += len(body)
            st["data_frames"].append(n)
            if flags & 0x1:
                self._client_end(sid)
        elif typ == F_SETTINGS:
            if flags & 0x1:
                if self.pending_adv:
                    p = self.pending_adv.pop(0)
                    if self.settings_acked == 0:
                        self.adv_mcs = p.get("max_concurrent_streams")
                    elif "max_concurrent_streams" in p:
                        self.adv_mcs = p["max_concurrent_streams"]
                    self.adv.update(p)
                    self.settings_acked += 1
                    w.log("h2_settings_acked", self.wid, self.settings_acked)
                else:
                    self.problems.append("SETTINGS ACK without SETTINGS")
            else:
                for i in range(0, len(payload), 6):
                    k, v = struct.unpack(">HI", payload[i:i + 6])
                    self.client_settings[k] = v
        elif typ == F_RST:
            st = self.streams.get(sid)
            if st is not None:
                st["rst"] = True
                self.open_srv.discard(sid)
            w.log("h2_client_rst", self.wid, sid)
        elif typ == F_GOAWAY:
            w.log("h2_client_goaway", self.wid)
        elif typ == F_WU:
            pass
        elif typ == F_PING:
            pass

    def _headers_done(self):
        sid, flags, block = self.hdr_block
        self.hdr_block = None
        w = self.w
        try:
            hdrs = [(k if isinstance(k, bytes) else k.encode(),
                     v if isinstance(v, bytes) else v.encode())
                    for k, v in self.dec.decode(bytes(block), raw=True)]
        except Exception as e:  # noqa: BLE001
            self.problems.append(f"hpack: {e!r}")
            return
        if sid in self.streams:
            # trailers
            if flags & 0x1:
                self._client_end(sid)
            return
        if sid % 2 == 0 or (self.streams and sid <= max(self.streams)):
            self.problems.append(f"bad stream id {sid}")
        eff = self.stream_limit()
        n_open = len(self.open_srv) + 1
        w.log("h2_stream_open", self.wid, sid, n_open, eff)
        if n_open > eff:
            self.problems.append(
                f"stream {sid} opened with {n_open} open streams, limit {eff}")
        self.open_srv.add(sid)
        self.streams[sid] = {"headers": hdrs, "body": hashlib.sha256(), "blen": 0,
                             "client_ended": False, "rst": False, "data_frames": [],
                             "end_on_headers": bool(flags & 0x1)}
        if flags & 0x1:
            self._client_end(sid)

    def _client_end(self, sid):
        st = self.streams[sid]
        st["client_ended"] = True
        h = dict(st["headers"])
        token = h.get(b"x-token")
        self.w.log("h2_req", self.wid, self.label, sid, token, tuple(st["headers"]),
                   st["blen"], st["body"].hexdigest()[:16], st["end_on_headers"],
                   tuple(st["data_frames"][:50]))

    def server_ended(self, sid):
        self.open_srv.discard(sid)


class H2Server(TimerMixin, Peer):
    def __init__(self, world, cfg, label):
        self._tinit()
        self.world = world
        self.cfg = cfg
        self.hcfg = cfg.get("h2", {})
        self.label = label
        self.c = h2.connection.H2Connection(
            config=h2.config.H2Configuration(client_side=False, header_encoding=None,
                                             validate_inbound_headers=False))
        self.ledger = None
        self.closed = False
        self.pending = {}          # sid -> dict(remaining bytes, plan, token, pos)
        self.tokens = {}
        self.nheaders = 0
        self.ndata = 0
        self.owed_stream = {}
        self.owed_conn = 0
        import copy as _copy

        self.events = _copy.deepcopy(list(self.hcfg.get("events", ())))
        self.goaway_sent = False
        self.gated = False
        self.req_cl = {}           # sid -> announced request body length (or None)
        self.req_got = {}
        self.held = b""
        self.goaway_last = 0
        self.max_processed = 0
        self.cur_sid = 0
        self.refused = set()
        self.early = set()         # streams whose response head went out before the request ended
        self.fc_sent = 0           # flow-controlled bytes of response DATA sent (incl. padding)
        self.close_when_drained = False

    TRACKED = ("max_concurrent_streams", "initial_window_size", "max_frame_size")

    def on_open(self, now):
        self.ledger = FrameLedger(self.w, self.wire.id, self.label)
        named = dict(self.hcfg.get("settings", {}))
        later = any(e.get("do") == "settings" for e in self.events)
        # h2 applies one pending change *per setting* on every ACK, whichever SETTINGS
        # frame carried it: to keep its server-side enforcement exact every frame
        # carries the same set of keys.  MAX_CONCURRENT_STREAMS may only stay absent
        # when no later SETTINGS frame is planned.
        self.cur_settings = {"initial_window_size": 65535, "max_frame_size": 16384}
        if later and "max_concurrent_streams" not in named:
            named["max_concurrent_streams"] = 2 ** 31 - 1
        if later:
            full = dict(self.cur_settings)
            full.update(named)
            named = full
        self.cur_settings.update(named)
        self.c.local_settings = h2.settings.Settings(client=False)
        self.c.initiate_connection()
        if named:
            self.c.clear_outbound_data_buffer()
            self.c.update_settings({SETTING_NAMES[k]: v for k, v in named.items()})
        self.ledger.pending_adv.append(dict(named))
        self.w.log("h2_srv_settings", self.wire.id, tuple(sorted(named.items())))
        self._flush(now)
        for ev in self.events:
            wh = ev.get("when", {})
            if "t" in wh:
                self.at(now + wh["t"], lambda t, ev=ev: self._fire(t, ev))

    def _send_settings(self, now, named, partial=False):
        self.cur_settings.update(named)
        full = {k: v for k, v in self.cur_settings.items()}
        if partial:
            # the frame on the wire carries only the keys that change (a setting absent
            # from a SETTINGS frame keeps its value, RFC 9113 6.5.3); h2's server-side
            # bookkeeping is still fed the full key set, see on_open()
            import hyperframe.frame as hf

            self._ungate(now)
            self._flush(now)
            self.c.update_settings({SETTING_NAMES[k]: v for k, v in full.items()})
            self.c.clear_outbound_data_buffer()
            f = hf.SettingsFrame(0)
            f.settings = {int(SETTING_NAMES[k]): v for k, v in sorted(named.items())}
            if not self.closed:
                self.wire.push(now + self.hcfg.get("lat", 0.0005), f.serialize())
            self.ledger.pending_adv.append(dict(full))
            self.w.log("h2_srv_settings", self.wire.id, tuple(sorted(named.items())), "partial")
            self.w.probes["h2_settings_partial"] += 1
            return
        self.c.update_settings({SETTING_NAMES[k]: v for k, v in full.items()})
        self.ledger.pending_adv.append(dict(full))
        self.w.log("h2_srv_settings", self.wire.id, tuple(sorted(full.items())))
        self._flush(now)

    def _flush(self, now):
        d = self.c.data_to_send()
        if self.gated:
            self.held += d      # withheld until the client has acknowledged the PING
            return
        if self.held:
            d, self.held = self.held + d, b""
        if d and not self.closed:
            self.wire.push(now + self.hcfg.get("lat", 0.0005), d)

    def _ungate(self, now):
        if self.gated:
            self.gated = False
            self._flush(now)

    def _noise(self, now, sid, plan):
        """Frames a server may legally send in the middle of a response and that carry no
        part of it: stream- and connection-level WINDOW_UPDATE, PRIORITY, PING, a frame
        of an unknown type (to be ignored)."""
        if not plan.get("h2_noise") or self.closed:
            return
        r = self.w.rng(f"h2noise/{self.wire.id}")
        if r.random() > 0.5:
            return
        self._flush(now)
        kind = r.choice(["wu_stream", "wu_stream", "wu_conn", "priority", "ping", "unknown"])
        self.w.probes["h2_noise:" + kind] += 1
        import struct as _st

        def frame(typ, flags, stream, payload):
            return _st.pack(">I", len(payload))[1:] + bytes([typ, flags]) + _st.pack(">I", stream) + payload

        try:
            if kind == "wu_stream":
                k = r.choice([1, 100, 5000])
                self.c.increment_flow_control_window(k, stream_id=sid)
                self.ledger.stream_credit[sid] = self.ledger.stream_credit.get(sid, 0) + k
            elif kind == "wu_conn":
                k = r.choice([1, 100, 5000])
                self.c.increment_flow_control_window(k)
                self.ledger.conn_window += k
            elif kind == "ping":
                self.c.ping(b"sim-ping")
            elif kind == "priority":
                self.wire.push(now + self.hcfg.get("lat", 0.0005),
                               frame(2, 0, sid, _st.pack(">IB", 0, r.randrange(256))))
            else:
                self.wire.push(now + self.hcfg.get("lat", 0.0005),
                               frame(0xFA, r.randrange(256), r.choice([0, sid]),
                                     bytes(r.randrange(256) for _ in range(r.randint(0, 12)))))
        except h2.exceptions.ProtocolError as e:
            self.w.log("h2_srv_event_skipped", self.wire.id, "noise", repr(e))
        self._flush(now)

    def _close(self, t, kind=EOF):
        if not self.closed:
            self._ungate(t)      # what was withheld goes out before the close
            self.closed = True
            self.wire.push(t, kind)
            self.wire.peer_closed = True

    def on_abort(self, now):
        self.closed = True
        self._timers = []

    def on_client_close(self, now):
        self.closed = True
        self._timers = []

    def _maybe_close_drained(self, now):
        if self.close_when_drained and not self.pending and not (
                self.ledger.open_srv - self.refused):
            self._flush(now)
            self._close(now + 0.002)

    # -- events from the plan ------------------------------------------------------
    def _fire(self, now, ev):
        if self.closed or ev.get("done"):
            return
        ev["done"] = True
        w = self.w
        do = ev["do"]
        if do != "ping" and do != "settings":
            w.stats["hostile:h2_" + do] += 1
        try:
            if do == "settings":
                self._send_settings(now, ev["settings"], bool(ev.get("partial")))
                w.probes["h2_settings_change"] += 1
                mcs = ev["settings"].get("max_concurrent_streams")
                if mcs is not None and mcs < len(self.ledger.open_srv):
                    w.probes["h2_settings_decrease_inflight"] += 1
            elif do == "ping":
                self._flush(now)
                self.c.ping(b"simping!")
                w.probes["h2_ping"] += 1
                if ev.get("gate") and not self.gated:
                    # a server may probe the round trip and send nothing further until
                    # the PING has been acknowledged (unusual, legal)
                    self._flush(now)
                    self.gated = True
                    w.probes["h2_ping_gate"] += 1
            elif do == "goaway":
                sids = sorted(self.ledger.streams)
                mode = ev.get("last", "equal")
                hi = sids[-1] if sids else 0
                if mode == "zero":
                    last = 0
                elif mode == "below":
                    last = sids[-2] if len(sids) > 1 else 0
                elif mode == "equal":
                    last = hi
                elif mode == "above":
                    last = hi + 2
                else:
                    last = int(mode)
                # a server never disowns a request it has already processed (unless the
                # plan asks for exactly that misbehaviour: C15)
                if not ev.get("disown"):
                    last = max(last, self.max_processed)
                self.goaway_sent = True
                self.goaway_last = last
                # graceful shutdown: the GOAWAY frame is written by hand so that h2's
                # server state machine keeps serving the streams <= last_stream_id
                import hyperframe.frame as hf

                self._ungate(now)
                self._flush(now)
                f = hf.GoAwayFrame(0)
                f.last_stream_id = last
                f.error_code = ev.get("code", 0)
                if not self.closed:
                    self.wire.push(now + self.hcfg.get("lat", 0.0005), f.serialize())
                    self.goaway_offset = self.wire.npushed
                w.log("h2_srv_goaway", self.wire.id, last, tuple(sids))
                w.probes["h2_goaway"] += 1
                # refused streams are dropped by the server
                for sid in list(self.pending):
                    if sid > last:
                        del self.pending[sid]
                        self.ledger.server_ended(sid)
                for sid in sids:
                    if sid > last:
                        self.refused.add(sid)
                        self.ledger.server_ended(sid)
                if ev.get("close", True):
                    self.close_when_drained = True
                    self._maybe_close_drained(now)
            elif do == "rst":
                sids = sorted(s for s in self.ledger.streams if s in self.ledger.open_srv)
                if sids:
                    sid = sids[ev.get("nth", 0) % len(sids)]
                    self.c.reset_stream(sid, error_code=ev.get("code", 8))
                    self.pending.pop(sid, None)
                    self.ledger.server_ended(sid)
                    w.log("h2_srv_rst", self.wire.id, sid)
                    w.probes["h2_rst"] += 1
            elif do == "close":
                self._flush(now)
                self._close(now, RESET if ev.get("reset") else EOF)
                return
        except h2.exceptions.ProtocolError as e:
            w.log("h2_srv_event_skipped", self.wire.id, do, repr(e))
        self._flush(now)

    def _check_counted_events(self, now):
        for ev in self.events:
            if ev.get("done"):
                continue
            wh = ev.get("when", {})
            if "after_headers" in wh and self.nheaders >= wh["after_headers"]:
                d = wh.get("delay", 0.0)
                if d:
                    ev2 = ev
                    wh.pop("after_headers")
                    self.at(now + d, lambda t, ev=ev2: self._fire(t, ev))
                else:
                    self._fire(now, ev)
            elif "after_data" in wh and self.ndata >= wh["after_data"]:
                self._fire(now, ev)

    # -- data ----------------------------------------------------------------------------
    def on_data(self, now, data):
        w = self.w
        if self.closed:
            return
        evs = []
        try:
            for raw in self.ledger.feed(data):
                self._lenient_windows()
                evs.extend(self.c.receive_data(raw))
        except h2.exceptions.ProtocolError as e:
            w.log("h2_srv_error", self.wire.id, type(e).__name__, str(e)[:120])
            self._flush(now)
            self._close(now + 0.001)
            return
        for ev in evs:
            if isinstance(ev, h2.events.RequestReceived):
                self.nheaders += 1
                hd = dict(ev.headers)
                tok = hd.get(b"x-token")
                self.tokens[ev.stream_id] = tok
                cl = hd.get(b"content-length")
                self.req_cl[ev.stream_id] = int(cl) if cl is not None and cl.isdigit() else None
                # plan events counted in request heads fire before the request is
                # processed, so that a GOAWAY can still refuse it
                self.cur_sid = ev.stream_id
                self._check_counted_events(now)
                plan = w.plans.get(tok) or {}
                if plan.get("h2_early_head") and ev.stream_ended is None \
                        and not self.goaway_sent and not self.closed:
                    # a server may answer before the request body has been received
                    self._early_head(now, ev.stream_id, tok, plan)
            elif isinstance(ev, h2.events.DataReceived):
                n = ev.flow_controlled_length
                self.ndata += n
                self._credit(now, ev.stream_id, n)
            elif isinstance(ev, h2.events.StreamEnded):
                tok = self.tokens.get(ev.stream_id)
                if self.goaway_sent and ev.stream_id > self.goaway_last:
                    self.refused.add(ev.stream_id)
                    self.ledger.server_ended(ev.stream_id)
                else:
                    w.processed[tok] = w.processed.get(tok, 0) + 1
                    self.max_processed = max(self.max_processed, ev.stream_id)
                    self._respond(now, ev.stream_id)
            elif isinstance(ev, h2.events.WindowUpdated):
                self._pump(now)
            elif isinstance(ev, h2.events.StreamReset):
                self.pending.pop(ev.stream_id, None)
                self.ledger.server_ended(ev.stream_id)
            elif isinstance(ev, h2.events.ConnectionTerminated):
                pass
            elif isinstance(ev, h2.events.PingAckReceived):
                if self.gated:
                    self._ungate(now)
                    self._pump(now)
        self._check_counted_events(now)
        self._flush(now)

    def _lenient_windows(self):
        """RFC 9113 6.9.1 allows an empty DATA frame (END_STREAM) when the window is zero
        or - after a SETTINGS decrease - negative; h2's inbound WindowManager raises
        'Flow control window shrunk below 0' for it.  Patch the *server side* stream
        objects of this connection only (the client under test is untouched)."""
        for st in self.c.streams.values():
            wm = getattr(st, "_inbound_window_manager", None)
            if wm is None or getattr(wm, "_sim_lenient", False):
                continue
            orig = wm.window_consumed

            def window_consumed(size, wm=wm, orig=orig):
                if size == 0 and wm.current_window_size <= 0:
                    return None
                return orig(size)

            wm.window_consumed = window_consumed
            wm._sim_lenient = True

    # -- window updates for request bodies ----------------------------------------------
    def _credit(self, now, sid, n):
        pol = self.hcfg.get("wu", "eager")
        if pol == "thrifty":
            # exactly as much credit as the announced request bodies still need, no more:
            # a body that fits the window gets none, and the windows stand at zero when
            # its last byte has arrived (END_STREAM needs no credit)
            self.req_got[sid] = self.req_got.get(sid, 0) + n
            if self.req_cl.get(sid) is None:
                self._grant(now, sid, n, n)
                return
            try:
                rem = max(0, self.req_cl[sid] - self.req_got[sid])
                s_need = rem - self.c.remote_flow_control_window(sid)
                tot = sum(max(0, cl - self.req_got.get(k, 0)) for k, cl in self.req_cl.items()
                          if cl is not None and k in self.ledger.open_srv)
                c_need = tot - self.c._inbound_flow_control_window_manager.current_window_size
            except (h2.exceptions.ProtocolError, AttributeError, KeyError):
                self._grant(now, sid, n, n)
                return
            self._grant(now, sid, max(0, s_need), max(0, c_need))
            return
        if pol == "eager":
            self._grant(now, sid, n, n)
        elif pol == "late":
            self.at(now + self.hcfg.get("wu_delay", 0.3),
                    lambda t, sid=sid, n=n: self._grant(t, sid, n, n, flush=True))
        elif pol == "tiny":
            # at most 16 increments per DATA frame keeps large uploads tractable
            step = max(self.hcfg.get("wu_step", 7), (n + 15) // 16)
            if n <= 256:
                step = n   # no silly-window decay: small frames are credited at once
            k = 0
            left = n
            while left > 0:
                inc = min(step, left)
                left -= inc
                k += 1
                self.at(now + 0.0007 * k,
                        lambda t, sid=sid, inc=inc: self._grant(t, sid, inc, inc, flush=True))
        elif pol == "stream_first":
            self._grant(now, sid, n, 0)
            self.at(now + self.hcfg.get("wu_delay", 0.2),
                    lambda t, sid=sid, n=n: self._grant(t, sid, 0, n, flush=True))
        elif pol == "conn_first":
            self._grant(now, sid, 0, n)
            self.at(now + self.hcfg.get("wu_delay", 0.2),
                    lambda t, sid=sid, n=n: self._grant(t, sid, n, 0, flush=True))
        elif pol == "batched":
            # accumulate and release when at least `wu_batch` bytes are owed
            self.owed_conn += n
            self.owed_stream[sid] = self.owed_stream.get(sid, 0) + n
            b = self.hcfg.get("wu_batch", 20000)
            if self.owed_conn >= b:
                for s, v in list(self.owed_stream.items()):
                    self._grant(now, s, v, 0)
                self._grant(now, None, 0, self.owed_conn)
                self.owed_conn = 0
                self.owed_stream = {}
            else:
                # never withhold forever
                self.at(now + self.hcfg.get("wu_delay", 0.5), self._release_owed)
        else:
            raise ValueError(pol)

    def _release_owed(self, t):
        if self.closed:
            return
        for s, v in list(self.owed_stream.items()):
            self._grant(t, s, v, 0)
        if self.owed_conn:
            self._grant(t, None, 0, self.owed_conn)
        self.owed_conn = 0
        self.owed_stream = {}
        self._flush(t)

    def _grant(self, now, sid, s_inc, c_inc, flush=False):
        if self.closed:
            return
        try:
            if s_inc and sid is not None:
                st = self.c.streams.get(sid)
                if st is not None and not st.closed and st.state_machine.state.name in (
                        "OPEN", "HALF_CLOSED_LOCAL"):
                    self.c.increment_flow_control_window(s_inc, sid)
                    self.ledger.stream_credit[sid] = self.ledger.stream_credit.get(sid, 0) + s_inc
            if c_inc:
                self.c.increment_flow_control_window(c_inc)
                self.ledger.conn_window += c_inc
            self.w.stats["h2_wu_sent"] += 1
        except h2.exceptions.ProtocolError:
            pass
        if flush:
            self._flush(now)

    # -- responses ---------------------------------------------------------------------------
    def _early_head(self, now, sid, tok, plan):
        hdrs = [(b":status", b"%d" % plan["status"])] + [
            (k.lower(), v) for k, v in plan["headers"]
            if k.lower() not in (b"connection", b"transfer-encoding", b"keep-alive")]
        try:
            self.c.send_headers(sid, hdrs, end_stream=False)
        except h2.exceptions.ProtocolError as e:
            self.w.log("h2_srv_event_skipped", self.wire.id, "early-head", repr(e))
            return
        self.early.add(sid)
        self.w.probes["h2_early_head"] += 1
        self.w.log("h2_early_head", self.wire.id, sid, tok)
        self._flush(now)

    def _respond(self, now, sid):
        tok = self.tokens.get(sid) or b"?"
        plan = self.world.plans.get(tok) or self.cfg.get("default_plan") or default_plan(tok)
        think = plan.get("think", 0.0)

        def go(t):
            if self.closed or sid not in self.ledger.open_srv:
                return
            hdrs = [(b":status", b"%d" % plan["status"])] + [
                (k.lower(), v) for k, v in plan["headers"]
                if k.lower() not in (b"connection", b"transfer-encoding", b"keep-alive")]
            n = plan.get("body_len", 0)
            try:
                if sid in self.early:
                    if n == 0 and not plan.get("h2_empty_data"):
                        self.c.end_stream(sid)
                else:
                    for code in plan.get("interim", ()):
                        if code != 101:
                            self.c.send_headers(sid, [(b":status", b"%d" % code)])
                    self.c.send_headers(sid, hdrs,
                                        end_stream=(n == 0 and not plan.get("h2_empty_data")))
            except h2.exceptions.ProtocolError as e:
                self.w.log("h2_srv_event_skipped", self.wire.id, "respond", repr(e))
                return
            self.w.log("h2_resp", self.wire.id, sid, tok, plan["status"], n)
            if sid in self.ledger.open_srv and not (n == 0 and not plan.get("h2_empty_data")):
                self._noise(t, sid, plan)
            if n == 0 and not plan.get("h2_empty_data"):
                self.ledger.server_ended(sid)
            else:
                self.pending[sid] = {"body": body_for(tok, n), "pos": 0, "plan": plan,
                                     "sent_frames": 0, "next_t": 0.0}
                self._pump(t)
            self._flush(t)

        if think:
            self.at(now + think, go)
        else:
            go(now)

    def _pump(self, now):
        """Send pending response DATA, interleaving streams in PRNG order."""
        if self.closed:
            return
        r = self.w.rng(f"h2sched/{self.wire.id}")
        mode = self.hcfg.get("interleave", "random")
        progress = True
        while progress and self.pending:
            progress = False
            sids = sorted(self.pending)
            if mode == "random":
                r.shuffle(sids)
            for sid in sids:
                p = self.pending.get(sid)
                if p is None:
                    continue
                plan = p["plan"]
                body = p["body"]
                rem = len(body) - p["pos"]
                gap = plan.get("h2_gap", 0.0)
                if gap and p["next_t"] > now + 1e-12:
                    continue  # paced stream: its next frame is not due yet
                burst = 1 if (mode in ("random", "rr") or gap) else 10 ** 9
                while rem > 0 and burst > 0:
                    try:
                        win = self.c.local_flow_control_window(sid)
                    except h2.exceptions.ProtocolError:
                        self.pending.pop(sid, None)
                        rem = -1
                        break
                    fs = plan.get("h2_frame", 0) or self.c.max_outbound_frame_size
                    k = min(win, self.c.max_outbound_frame_size, rem, fs)
                    if k <= 0:
                        break
                    trunc = plan.get("trunc")
                    if trunc is not None and p["pos"] + k > trunc:
                        k = trunc - p["pos"]
                        if k <= 0:
                            self._truncate(now, sid, plan)
                            return
                    pad = plan.get("h2_pad", 0)
                    # the last DATA frame carries END_STREAM itself (what most servers do)
                    # or is followed by an empty DATA frame that does
                    end_now = (k == rem and trunc is None
                               and self.w.rng(f"h2end/{self.wire.id}").random() < 0.5)
                    if pad and k + pad + 1 <= min(win, self.c.max_outbound_frame_size):
                        self.c.send_data(sid, body[p["pos"]:p["pos"] + k], pad_length=pad,
                                         end_stream=end_now)
                        self.fc_sent += k + pad + 1
                    else:
                        self.c.send_data(sid, body[p["pos"]:p["pos"] + k], end_stream=end_now)
                        self.fc_sent += k
                    p["pos"] += k
                    rem -= k
                    burst -= 1
                    progress = True
                    if end_now:
                        self.pending.pop(sid, None)
                        self.ledger.server_ended(sid)
                        rem = -1
                        break
                    if rem > 0:
                        self._noise(now, sid, plan)
                    if gap and rem > 0:
                        p["next_t"] = now + gap
                        self.at(p["next_t"], self._pump)
                        progress = False
                    if trunc is not None and p["pos"] >= trunc:
                        self._truncate(now, sid, plan)
                        return
                if rem == 0:
                    self.c.end_stream(sid)
                    self.pending.pop(sid, None)
                    self.ledger.server_ended(sid)
                    progress = True
        self._flush(now)
        self._maybe_close_drained(now)

    def _truncate(self, now, sid, plan):
        kind = plan.get("trunc_kind", "eof")
        self.w.probes["h2_truncated"] += 1
        self.w.stats["hostile:trunc"] += 1
        if kind == "rst":
            self.c.reset_stream(sid, error_code=plan.get("trunc_code", 2))
            self.pending.pop(sid, None)
            self.ledger.server_ended(sid)
            self._flush(now)
        elif kind == "goaway":
            self.c.close_connection(error_code=2)
            self._flush(now)
            self._close(now + 0.001)
        else:
            self._flush(now)
            self._close(now + 0.001, RESET if kind == "reset" else EOF)
