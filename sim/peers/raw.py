"""Raw peer: sends a scripted byte stream (from-scratch inputs for C15), ignoring what
the client writes."""
from __future__ import annotations

from ..wire import EOF, RESET, Peer, TimerMixin


class RawPeer(TimerMixin, Peer):
    def __init__(self, world, cfg, label):
        self.world = world
        self.cfg = cfg
        self.label = label
        self.started = False
        self._tinit()

    def _go(self, now):
        if self.started:
            return
        self.started = True
        t = now
        for item in self.cfg.get("script", ()):
            d, data = item
            t += d
            if data in ("EOF", "RESET"):
                self.wire.push(t, EOF if data == "EOF" else RESET)
                # the server stops reading at that instant, not before
                self.at(t, lambda tt: setattr(self.wire, "peer_closed", True))
            else:
                self.wire.push(t, bytes(data))
        self.w.stats["hostile:raw_script"] += 1

    def on_open(self, now):
        if self.cfg.get("trigger", "data") == "open" and not self.cfg.get("tls"):
            self._go(now)

    def on_tls(self, now, sni, offered):
        if not self.cfg.get("tls"):
            return False
        sel = None
        for p in self.cfg.get("alpn", ["http/1.1"]):
            if p in offered:
                sel = p
                break
        if self.cfg.get("trigger", "data") == "open":
            self._go(now)
        return sel

    def on_data(self, now, data):
        self.nwrites = getattr(self, "nwrites", 0) + 1
        trig = self.cfg.get("trigger", "data")
        need = int(trig[4:]) if trig.startswith("data") and len(trig) > 4 else 1
        if self.nwrites >= need:
            self._go(now)
