"""HTTP/1.1 origin peer: an independent strict request parser (deliberately not h11)
and a plan-driven response generator."""
from __future__ import annotations

import hashlib
import re

from ..wire import EOF, RESET, Peer, TimerMixin

TOKEN_RE = re.compile(rb"^[!#$%&'*+\-.^_`|~0-9A-Za-z]+$")
TARGET_BAD = re.compile(rb"[\x00-\x20\x7f]")
VALUE_BAD = re.compile(rb"[\x00\r\n]")
TOK_IN_TARGET = re.compile(rb"/t/([A-Za-z0-9_]+)")


def body_for(token: bytes, n: int) -> bytes:
    if n <= 0:
        return b""
    pat = token + b"|"
    return (pat * (n // len(pat) + 1))[:n]


def sha(b: bytes) -> str:
    return hashlib.sha256(b).hexdigest()[:16]


class BadRequest(Exception):
    pass


class H1RequestParser:
    """Incremental, strict.  feed(data) -> list of events:
    ("head", method, target, version, headers), ("body", bytes), ("end",),
    ("bad", reason).  After a CONNECT/upgrade switch the owner stops feeding."""

    def __init__(self):
        self.buf = bytearray()
        self.state = "head"
        self.remaining = 0
        self.dead = False

    def feed(self, data):
        self.buf += data
        out = []
        try:
            while self._step(out):
                pass
        except BadRequest as e:
            self.dead = True
            out.append(("bad", str(e)))
        return out

    def _line(self):
        i = self.buf.find(b"\r\n")
        if i == -1:
            if len(self.buf) > 200000:
                raise BadRequest("line too long")
            return None
        line = bytes(self.buf[:i])
        del self.buf[: i + 2]
        return line

    def _step(self, out):
        if self.dead:
            return False
        st = self.state
        if st == "head":
            i = self.buf.find(b"\r\n\r\n")
            if i == -1:
                if len(self.buf) > 400000:
                    raise BadRequest("head too long")
                return False
            head = bytes(self.buf[: i + 2])
            del self.buf[: i + 4]
            lines = head.split(b"\r\n")[:-1]
            rl = lines[0]
            parts = rl.split(b" ")
            if len(parts) != 3:
                raise BadRequest("request line: %r" % rl[:80])
            method, target, version = parts
            if not TOKEN_RE.match(method):
                raise BadRequest("method")
            if not target or TARGET_BAD.search(target):
                raise BadRequest("target")
            if version != b"HTTP/1.1":
                raise BadRequest("version")
            headers = []
            for ln in lines[1:]:
                j = ln.find(b":")
                if j <= 0:
                    raise BadRequest("header line: %r" % ln[:80])
                name = ln[:j]
                if not TOKEN_RE.match(name):
                    raise BadRequest("header name: %r" % name[:80])
                value = ln[j + 1:].strip(b" \t")
                if VALUE_BAD.search(value) or b"\r" in ln or b"\n" in ln:
                    raise BadRequest("header value")
                headers.append((name, value))
            out.append(("head", method, target, version, headers))
            te = [v for k, v in headers if k.lower() == b"transfer-encoding"]
            cl = [v for k, v in headers if k.lower() == b"content-length"]
            if te:
                codings = [c.strip().lower() for v in te for c in v.split(b",")]
                if codings[-1] != b"chunked":
                    raise BadRequest("transfer-encoding")
                self.state = "chunk_size"
            elif cl:
                vals = {v for v in cl}
                if len(vals) != 1 or not next(iter(vals)).isdigit():
                    raise BadRequest("content-length")
                self.remaining = int(next(iter(vals)))
                if self.remaining == 0:
                    out.append(("end",))
                    self.state = "head"
                else:
                    self.state = "body_cl"
            else:
                out.append(("end",))
                self.state = "head"
            return True
        if st == "body_cl":
            if not self.buf:
                return False
            k = min(len(self.buf), self.remaining)
            out.append(("body", bytes(self.buf[:k])))
            del self.buf[:k]
            self.remaining -= k
            if self.remaining == 0:
                out.append(("end",))
                self.state = "head"
            return True
        if st == "chunk_size":
            line = self._line()
            if line is None:
                return False
            sz = line.split(b";")[0].strip()
            if not re.match(rb"^[0-9a-fA-F]+$", sz):
                raise BadRequest("chunk size %r" % line[:40])
            self.remaining = int(sz, 16)
            self.state = "chunk_data" if self.remaining else "trailers"
            return True
        if st == "chunk_data":
            if self.remaining:
                if not self.buf:
                    return False
                k = min(len(self.buf), self.remaining)
                out.append(("body", bytes(self.buf[:k])))
                del self.buf[:k]
                self.remaining -= k
                return True
            if len(self.buf) < 2:
                return False
            if self.buf[:2] != b"\r\n":
                raise BadRequest("chunk terminator")
            del self.buf[:2]
            self.state = "chunk_size"
            return True
        if st == "trailers":
            line = self._line()
            if line is None:
                return False
            if line == b"":
                out.append(("end",))
                self.state = "head"
            return True
        raise AssertionError(st)


REASONS = {200: b"OK", 201: b"Created", 204: b"No Content", 206: b"Partial Content",
           301: b"Moved Permanently", 304: b"Not Modified", 400: b"Bad Request",
           403: b"Forbidden", 404: b"Not Found", 407: b"Proxy Authentication Required",
           418: b"I'm a teapot", 500: b"Internal Server Error", 502: b"Bad Gateway",
           503: b"Service Unavailable", 100: b"Continue", 101: b"Switching Protocols",
           102: b"Processing", 103: b"Early Hints"}


def default_plan(token=b"?"):
    return {"status": 200, "reason": b"OK", "body_len": 12, "framing": "cl",
            "header_lines": [b"Content-Length: 12", b"x-echo-token: " + token],
            "headers": [(b"Content-Length", b"12"), (b"x-echo-token", token)]}


def serialise_response(plan, token):
    """-> (bytes of the whole response incl. interim heads, offset where tunnel data
    starts or None)."""
    out = bytearray()
    for code in plan.get("interim", ()):
        out += b"HTTP/1.1 %d %s\r\n" % (code, REASONS.get(code, b"Info"))
        if code == 103:
            out += b"Link: </style.css>; rel=preload\r\n"
        out += b"\r\n"
    ver = b"HTTP/1.0" if plan.get("http10") else b"HTTP/1.1"
    out += b"%s %d %s\r\n" % (ver, plan["status"], plan.get("reason", b"OK"))
    for ln in plan["header_lines"]:
        out += ln + b"\r\n"
    out += b"\r\n"
    body = body_for(token, plan.get("body_len", 0))
    fr = plan.get("framing", "cl")
    if fr in ("cl", "close"):
        out += body
    elif fr == "chunked":
        pos = 0
        for i, sz in enumerate(plan.get("chunks") or ([len(body)] if body else [])):
            style = plan.get("chunk_style", 0)
            if style == 1:
                szl = b"%X" % sz
            elif style == 2:
                szl = b"0%x;ext=1" % sz
            else:
                szl = b"%x" % sz
            out += szl + b"\r\n" + body[pos:pos + sz] + b"\r\n"
            pos += sz
        assert pos == len(body), (pos, len(body))
        out += b"0\r\n"
        for ln in plan.get("trailers", ()):
            out += ln + b"\r\n"
        out += b"\r\n"
    elif fr == "none":
        pass
    else:
        raise ValueError(fr)
    tun = None
    if plan.get("tunnel") is not None:
        tun = len(out)
        for seg in plan["tunnel"]:
            out += seg
    return bytes(out), tun


class H1Server(TimerMixin, Peer):
    """One HTTP/1.1 server connection."""

    def __init__(self, world, cfg, label):
        self._tinit()
        self.world = world
        self.cfg = cfg
        self.label = label            # e.g. "origin:a.test:80"
        self.parser = H1RequestParser()
        self.cur = None               # request being received
        self.nreq = 0
        self.tunnel = False
        self.closed = False
        self.busy_until = 0.0         # responses are serialised in order
        self.idle_timer_gen = 0
        self.last_end_off = None      # absolute s2c offset where the last response ends
        self.last_closing = False

    # -- lifecycle ----------------------------------------------------------------
    def on_open(self, now):
        self._arm_idle(now)

    def _arm_idle(self, now):
        ka = self.cfg.get("keepalive_timeout")
        if ka is None:
            return
        self.idle_timer_gen += 1
        g = self.idle_timer_gen

        def fire(t, g=g):
            if g == self.idle_timer_gen and not self.closed and self.cur is None:
                self.w.log("srv_idle_close", self.wire.id, t)
                self.w.probes["server_closed_idle"] += 1
                self.w.stats["hostile:idle_close"] += 1
                if self.cfg.get("idle_408"):
                    # some servers announce the idle time-out with an unsolicited 408
                    # before they close; it answers nobody's request
                    self.wire.push(t, b"HTTP/1.1 408 Request Timeout\r\nConnection: close\r\n"
                                      b"Content-Length: 0\r\n\r\n")
                    self.w.probes["server_idle_408"] += 1
                self._close(t)

        self.at(now + ka, fire)

    def _close(self, t, kind=EOF):
        if not self.closed:
            self.closed = True
            self.wire.push(t, kind)
            self.wire.peer_closed = True

    def on_abort(self, now):
        self.closed = True
        self._timers = []

    def on_client_close(self, now):
        self.closed = True
        self._timers = []

    # -- data -----------------------------------------------------------------------
    def on_data(self, now, data):
        w = self.w
        if self.closed:
            return
        if self.tunnel:
            self.tunnel_data(now, data)
            return
        self.idle_timer_gen += 1
        if self.nreq > 0 and self.cur is None and not self.parser.buf and data:
            # first byte of the next request on this connection
            w.log("srv_next_req_start", self.wire.id, self.nreq, self.wire.nread,
                  self.last_end_off, self.last_closing)
        for ev in self.parser.feed(data):
            k = ev[0]
            if k == "head":
                _, method, target, version, headers = ev
                self.nreq += 1
                token = None
                for hk, hv in headers:
                    if hk.lower() == b"x-token":
                        token = hv
                if token is None:
                    m = TOK_IN_TARGET.search(target)
                    if m:
                        token = m.group(1)
                self.cur = {"method": method, "target": target, "headers": headers,
                            "token": token, "body": hashlib.sha256(), "blen": 0,
                            "responded": False}
                w.log("srv_head", self.wire.id, self.label, self.nreq, token, method,
                      target, tuple(headers))
                plan = self._plan(token)
                if plan.get("early"):
                    self._respond(now, plan)
            elif k == "body":
                self.cur["body"].update(ev[1])
                self.cur["blen"] += len(ev[1])
            elif k == "end":
                c = self.cur
                w.log("srv_req", self.wire.id, self.label, self.nreq, c["token"],
                      c["method"], c["target"], tuple(c["headers"]), c["blen"],
                      c["body"].hexdigest()[:16])
                w.processed[c["token"]] = w.processed.get(c["token"], 0) + 1
                plan = self._plan(c["token"])
                if not c["responded"]:
                    self._respond(now, plan)
                self.cur = None
                if self.tunnel:
                    rest = bytes(self.parser.buf)
                    self.parser.buf.clear()
                    if rest:
                        self.tunnel_data(now, rest)
                    break
                if not self.closed:
                    self._arm_idle(max(now, self.busy_until))
            elif k == "bad":
                w.log("srv_bad", self.wire.id, self.label, ev[1])
                self.wire.push(now, b"HTTP/1.1 400 Bad Request\r\nContent-Length: 0\r\n"
                                    b"Connection: close\r\n\r\n")
                self._close(now)

    def tunnel_data(self, now, data):
        self.w.log("tunnel_c2s", self.wire.id, data)
        if self.cfg.get("tunnel_echo"):
            self.wire.push(now + 0.001, data)

    def tunnel_start(self, now):
        pass

    def _plan(self, token):
        p = self.world.plans.get(token)
        if p is None:
            p = self.cfg.get("default_plan") or default_plan(token or b"?")
        return p

    def _respond(self, now, plan):
        w = self.w
        c = self.cur
        c["responded"] = True
        token = c["token"] or b"?"
        raw, tun = serialise_response(plan, token)
        trunc = plan.get("trunc")
        if trunc is not None:
            raw = raw[:trunc]
        start = max(now, self.busy_until) + plan.get("think", 0.0)
        off0 = self.wire.npushed
        # cut into segments
        cuts = self._cuts(len(raw), plan)
        t = start
        pos = 0
        gap = plan.get("gap", 0.0)
        for cpos in cuts + [len(raw)]:
            if cpos > pos:
                self.wire.push(t, raw[pos:cpos])
                pos = cpos
                t += gap
        end = t
        self.busy_until = end
        closing = bool(plan.get("conn_close") or plan.get("http10")
                       or plan.get("framing") == "close" or plan.get("early") == "close"
                       or trunc is not None)
        self.last_end_off = self.wire.npushed
        self.last_closing = closing
        w.log("srv_resp", self.wire.id, self.label, self.nreq, token, len(raw),
              plan.get("framing", "cl"), plan["status"], off0, self.wire.npushed, closing)
        if trunc is not None:
            w.stats["hostile:trunc"] += 1
            self.at(end, lambda tt: self._close(tt, RESET if plan.get("trunc_kind") == "reset" else EOF))
        elif tun is not None or (c["method"] == b"CONNECT" and 200 <= plan["status"] < 300) \
                or plan["status"] == 101:
            self.tunnel = True
            self.tunnel_start(end)
            tl = end
            for seg in plan.get("tunnel_late", ()):
                tl += plan.get("tunnel_gap", 0.01)
                self.at(tl, lambda tt, seg=seg: (None if self.closed else self.wire.push(tt, seg)))
            if plan.get("tunnel_close"):
                self.at(end, lambda tt: self._close(tt))
        elif closing:
            self.at(end, lambda tt: self._close(tt))

    def _cuts(self, n, plan):
        mode = plan.get("cutmode", "none")
        if mode == "none" or n <= 1:
            return []
        r = self.w.rng(f"srvcut/{self.wire.id}")
        if mode == "random":
            k = r.randint(1, min(6, n - 1))
            return sorted({r.randint(1, n - 1) for _ in range(k)})
        if mode == "bytes":
            return list(range(1, min(n, 400)))
        if mode == "list":
            return sorted(x for x in set(plan.get("cuts", ())) if 0 < x < n)
        raise ValueError(mode)
