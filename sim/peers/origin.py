"""Origin endpoint: TLS/ALPN decision, then sniffs the protocol the client speaks and
delegates to the HTTP/1.1 or HTTP/2 server peer."""
from __future__ import annotations

from ..wire import RESET, Peer
from .h1 import H1Server

H2_PREFACE = b"PRI * HTTP/2.0\r\n\r\nSM\r\n\r\n"


class OriginPeer(Peer):
    def __init__(self, world, cfg, label):
        self.world = world
        self.cfg = cfg
        self.label = label
        self.inner = None
        self.tls_done = False
        self.sniff = b""
        self.dead = False

    # a spliced origin (behind a proxy) gets its wire from the proxy peer
    def attach(self, wire):
        super().attach(wire)

    def on_open(self, now):
        self.w.log("origin_open", self.wire.id, self.label)

    def on_tls(self, now, sni, offered):
        cfg = self.cfg
        if not cfg.get("tls"):
            self.w.log("tls_on_plain_endpoint", self.wire.id, self.label)
            return False
        if cfg.get("tls_fail"):
            return False
        self.tls_done = True
        self.w.log("origin_tls", self.wire.id, self.label, sni, tuple(offered))
        for p in cfg.get("alpn", ["http/1.1"]):
            if p in offered:
                return p
        return None

    def _start(self, now, proto):
        if proto == "h2":
            from .h2 import H2Server

            self.inner = H2Server(self.world, self.cfg, self.label)
        else:
            self.inner = H1Server(self.world, self.cfg, self.label)
        self.inner.attach(self.wire)
        self.w.log("origin_proto", self.wire.id, self.label, proto)
        self.inner.on_open(now)

    def on_data(self, now, data):
        if self.dead:
            return
        if self.inner is None:
            if self.cfg.get("tls") and not self.tls_done:
                # plaintext on a TLS port: the handshake parser rejects it
                self.w.log("plain_on_tls_endpoint", self.wire.id, self.label)
                self.dead = True
                self.wire.push(now, RESET)
                self.wire.peer_closed = True
                return
            self.sniff += data
            n = min(len(self.sniff), len(H2_PREFACE))
            if self.sniff[:n] == H2_PREFACE[:n]:
                if n < len(H2_PREFACE):
                    return  # undecided yet
                proto = "h2"
            else:
                proto = "h1"
            self._start(now, proto)
            data, self.sniff = self.sniff, b""
        self.inner.on_data(now, data)

    def on_client_close(self, now):
        if self.inner is not None:
            self.inner.on_client_close(now)

    def on_abort(self, now):
        self.dead = True
        if self.inner is not None:
            self.inner.on_abort(now)

    def run_timers(self, now):
        if self.inner is not None:
            self.inner.run_timers(now)

    def next_timer(self):
        return self.inner.next_timer() if self.inner is not None else None
