"""SOCKS5 proxy peer: hand-written server-side parser of greeting / username-password
/ CONNECT, replies per plan, then splices to the origin peer."""
from __future__ import annotations

import ipaddress

from ..wire import EOF, RESET, Peer


class SocksPeer(Peer):
    def __init__(self, world, cfg, label, factory):
        self.world = world
        self.cfg = cfg
        self.label = label
        self.factory = factory
        self.buf = bytearray()
        self.stage = "greeting"
        self.inner = None
        self.closed = False

    def _reply(self, now, data, stage):
        cfg = self.cfg
        g = cfg.get("garble", {}).get(stage)
        if g is not None:
            kind = g["kind"]
            if kind == "truncate":
                data = data[:g.get("n", 1)]
            elif kind == "replace":
                data = g["data"]
            elif kind == "empty_eof":
                self.wire.push(now + 0.001, EOF)
                self.wire.peer_closed = True
                self.closed = True
                return
            elif kind == "append":
                data = data + g["data"]
        if cfg.get("split_replies") and len(data) > 1:
            self.wire.push(now + 0.001, data[:1])
            self.wire.push(now + 0.002, data[1:])
        else:
            self.wire.push(now + 0.001, data, atomic=True)
        if g is not None and g.get("then_eof"):
            self.wire.push(now + 0.002, EOF)
            self.wire.peer_closed = True
            self.closed = True

    def on_tls(self, now, sni, offered):
        if self.inner is not None:
            return self.inner.on_tls(now, sni, offered)
        self.w.log("tls_on_plain_endpoint", self.wire.id, self.label)
        return False

    def on_data(self, now, data):
        w = self.w
        if self.closed:
            return
        if self.inner is not None:
            self.inner.on_data(now, data)
            return
        self.buf += data
        while True:
            b = self.buf
            if self.stage == "greeting":
                if len(b) < 2 or len(b) < 2 + b[1]:
                    return
                ver, n = b[0], b[1]
                methods = tuple(b[2:2 + n])
                del b[:2 + n]
                w.log("socks_greeting", self.wire.id, ver, methods)
                want = 2 if self.cfg.get("auth") else 0
                m = self.cfg.get("method_reply", want)
                self._reply(now, bytes([5, m]), "method")
                if m == 2:
                    self.stage = "auth"
                elif m == 0:
                    self.stage = "request"
                else:
                    self.stage = "dead"
            elif self.stage == "auth":
                if len(b) < 2 or len(b) < 2 + b[1] + 1:
                    return
                ulen = b[1]
                plen = b[2 + ulen]
                if len(b) < 3 + ulen + plen:
                    return
                u = bytes(b[2:2 + ulen])
                p = bytes(b[3 + ulen:3 + ulen + plen])
                ver = b[0]
                del b[:3 + ulen + plen]
                w.log("socks_auth", self.wire.id, ver, u, p)
                exp = self.cfg.get("auth")
                ok = exp is not None and [u.decode("latin-1"), p.decode("latin-1")] == list(exp)
                st = self.cfg.get("auth_status", 0 if ok else 1)
                self._reply(now, bytes([1, st]), "auth")
                self.stage = "request" if st == 0 else "dead"
            elif self.stage == "request":
                if len(b) < 5:
                    return
                ver, cmd, rsv, atyp = b[0], b[1], b[2], b[3]
                if atyp == 1:
                    need = 4 + 4 + 2
                elif atyp == 4:
                    need = 4 + 16 + 2
                elif atyp == 3:
                    need = 4 + 1 + b[4] + 2
                else:
                    need = 10 ** 9
                if len(b) < need:
                    return
                if atyp == 1:
                    host = str(ipaddress.IPv4Address(bytes(b[4:8])))
                elif atyp == 4:
                    host = str(ipaddress.IPv6Address(bytes(b[4:20])))
                else:
                    host = bytes(b[5:5 + b[4]]).decode("latin-1")
                port = int.from_bytes(b[need - 2:need], "big")
                del b[:need]
                w.log("socks_connect", self.wire.id, ver, cmd, atyp, host, port)
                rep = self.cfg.get("reply_code", 0)
                peer = None
                if rep == 0:
                    peer = self.factory((host, port))
                    if peer is None:
                        rep = 5
                self._reply(now, bytes([5, rep, 0, 1, 0, 0, 0, 0, 0, 0]), "connect")
                if rep == 0 and not self.closed:
                    if b:
                        w.log("socks_early_data", self.wire.id, bytes(b))
                    self.stage = "spliced"
                    self.inner = peer
                    peer.attach(self.wire)
                    peer.on_open(now)
                    w.log("socks_tunnel_up", self.wire.id, self.label, host, port)
                    if b:
                        rest = bytes(b)
                        b.clear()
                        peer.on_data(now, rest)
                    return
                self.stage = "dead"
            else:
                if b:
                    w.log("socks_unexpected_data", self.wire.id, self.stage, bytes(b))
                    b.clear()
                return

    def on_client_close(self, now):
        self.closed = True
        if self.inner is not None:
            self.inner.on_client_close(now)

    def on_abort(self, now):
        self.closed = True
        if self.inner is not None:
            self.inner.on_abort(now)

    def run_timers(self, now):
        if self.inner is not None:
            self.inner.run_timers(now)

    def next_timer(self):
        return self.inner.next_timer() if self.inner is not None else None
