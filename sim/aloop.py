"""Async executor: a virtual-time asyncio event loop whose scheduling, clock and
cancellation injection are owned by the simulator."""
from __future__ import annotations

import asyncio
import heapq
from asyncio import base_events, tasks

import anyio
from anyio._backends import _asyncio as _anyio_asyncio

from .core import Deadlock, HarnessError, StepCap, no_progress

if not hasattr(tasks, "_PyTask"):
    raise HarnessError("seam missing: asyncio.tasks._PyTask")
if not hasattr(_anyio_asyncio.CancelScope, "_deliver_cancellation"):
    raise HarnessError("seam missing: anyio CancelScope._deliver_cancellation")

_DELIVER = _anyio_asyncio.CancelScope._deliver_cancellation


class SimTask(tasks._PyTask):
    _sim_steps = 0

    def _Task__step(self, exc=None):
        self._sim_steps += 1
        lp = self._loop
        prev = lp.cur_task
        lp.cur_task = self
        try:
            return super()._Task__step(exc)
        finally:
            lp.cur_task = prev
            lp.after_step(self)


def _is_spinner(h):
    return getattr(h._callback, "__func__", None) is _DELIVER


_OPAQUE = ("async_generator_asend", "async_generator_athrow")


def coro_frames(task):
    """(filename, funcname) chain of the suspended coroutine stack, outermost first."""
    import gc
    import types

    c = task.get_coro()
    out = []
    seen = 0
    while c is not None and seen < 200:
        seen += 1
        if type(c).__name__ in _OPAQUE:
            # asend()/athrow() awaitables are opaque; their referent is the generator
            nxt = None
            for r in gc.get_referents(c):
                if isinstance(r, types.AsyncGeneratorType):
                    nxt = r
                    break
            c = nxt
            continue
        f = (
            getattr(c, "cr_frame", None)
            or getattr(c, "gi_frame", None)
            or getattr(c, "ag_frame", None)
        )
        if f is not None:
            out.append((f.f_code.co_filename, f.f_code.co_name))
        c = (
            getattr(c, "cr_await", None)
            or getattr(c, "gi_yieldfrom", None)
            or getattr(c, "ag_await", None)
        )
    return out


def hc_site(frames):
    """Innermost httpcore frame as 'file:function' (no line numbers); when that frame
    is a synchronisation primitive, the frame that called it is named first."""
    prim = None
    for fn, name in reversed(frames):
        i = fn.find("/httpcore/")
        if i != -1:
            rel = fn[i + len("/httpcore/"):]
            if rel.startswith(("_synchronization", "_trace", "_backends/")):
                if prim is None:
                    prim = name
                continue
            rel = rel.replace("_async/", "").replace("_sync/", "")
            return rel + ":" + name + (">" + prim if prim else "")
    return None


def stack_site(f):
    frames = []
    while f is not None:
        frames.append((f.f_code.co_filename, f.f_code.co_name))
        f = f.f_back
    frames.reverse()
    return hc_site(frames)


class SimLoop(base_events.BaseEventLoop):
    def __init__(self, world, sched="fifo", step_cap=200000):
        super().__init__()
        self.world = world
        self.sched = sched
        self.step_cap = step_cap
        self.nsteps = 0
        self.spins = 0
        self.cur_task = None
        self._last_only_spin = False
        self._ntask = 0
        self.set_task_factory(self._factory)
        self.set_exception_handler(lambda loop, ctx: None)
        self.inject = None       # dict(caller, step, kind, timing)
        self.injected = None     # dict(site, shield) once delivered
        self.scopes = {}         # caller name -> anyio.CancelScope
        self.shield = {}         # task -> depth
        self.on_quiescent = None
        self.caller_tasks = {}
        self._site_pending = None
        self.record_sites = None   # (caller name, list) -> site after each step

    # -- plumbing ---------------------------------------------------------------
    def _factory(self, loop, coro, **kw):
        if kw.get("name") is None:
            # default names carry a process-global counter: not deterministic
            self._ntask += 1
            kw["name"] = f"t{self._ntask}"
        return SimTask(coro, loop=loop, **kw)

    def time(self):
        return self.world.now

    def _process_events(self, evs):
        pass

    def _write_to_self(self):
        pass

    # -- executor interface used by wires ---------------------------------------
    async def asleep(self, t):
        await sleep_until(self, t)

    def wake(self, fut):
        if not fut.done():
            fut.set_result(None)

    def ctx_name(self):
        t = self.cur_task
        return t.get_name() if t is not None else "main"

    def ctx_site(self):
        import sys

        return stack_site(sys._getframe(1))

    # -- cancellation injection ---------------------------------------------------
    def _deliver(self, task, inj):
        self.inject = None
        frames = coro_frames(task)
        self.injected = {
            "site": hc_site(frames),
            "shield": self.shield.get(task.get_name(), 0) > 0,
            "t": self.world.now,
        }
        self.world.log("cancel_inject", task.get_name(), inj["kind"], inj["timing"],
                       inj["step"], self.injected["site"], self.injected["shield"])
        self.world.stats["cancel:%s:%s" % (inj["kind"], inj["timing"])] += 1
        if inj["timing"] == "late" or (inj["timing"] == "deadline"
                                       and task._fut_waiter is None):
            # the exception will be raised at the task's next checkpoint: name it
            self._site_pending = task
        if inj["kind"] == "native":
            task.cancel()
        else:
            sc = self.scopes.get(task.get_name())
            if sc is not None:
                sc.cancel()

    def after_step(self, task):
        rec = self.record_sites
        if rec is not None and task.get_name() == rec[0] and not task.done():
            rec[1].append(hc_site(coro_frames(task)))
        if self._site_pending is task:
            self._site_pending = None
            if not task.done() and self.injected is not None:
                self.injected["site"] = hc_site(coro_frames(task))
                self.injected["shield"] = self.shield.get(task.get_name(), 0) > 0
        inj = self.inject
        if (
            inj is not None
            and inj["timing"] == "early"
            and task.get_name() == inj["caller"]
            and task._sim_steps == inj["step"]
            and not task.done()
        ):
            self._deliver(task, inj)
        cb = self.world.on_change
        if cb is not None:
            cb()

    # -- the loop -------------------------------------------------------------------
    def _run_once(self):
        sched = self._scheduled
        while sched and sched[0]._cancelled:
            h = heapq.heappop(sched)
            h._scheduled = False
        ready = self._ready
        live = [h for h in ready if not h._cancelled]
        only_spin = bool(live) and all(_is_spinner(h) for h in live)
        w = self.world
        if not live or (only_spin and self._last_only_spin):
            q = self.on_quiescent
            # quiescent = nothing runnable and nothing due at the current instant
            if q is not None and not (sched and sched[0]._when <= w.now):
                q()
            # the hook may have made something runnable
            if not any(not h._cancelled and not _is_spinner(h) for h in ready):
                while sched and sched[0]._cancelled:
                    h = heapq.heappop(sched)
                    h._scheduled = False
                if not sched:
                    raise Deadlock(self.blocked())
                if sched[0]._when > w.now:
                    w.now = sched[0]._when
        self._last_only_spin = only_spin
        while sched and sched[0]._when <= w.now:
            h = heapq.heappop(sched)
            h._scheduled = False
            if not h._cancelled:
                ready.append(h)
        n = len(ready)
        if self.sched == "shuffle" and n > 1:
            batch = [ready.popleft() for _ in range(n)]
            idx = [i for i, h in enumerate(batch)
                   if isinstance(getattr(h._callback, "__self__", None), SimTask)]
            if len(idx) > 1:
                r = w.rng("sched")
                perm = idx[:]
                r.shuffle(perm)
                nb = batch[:]
                for i, j in zip(idx, perm):
                    nb[i] = batch[j]
                batch = nb
            ready.extend(batch)
        inj = self.inject
        for _ in range(n):
            h = ready.popleft()
            if h._cancelled:
                continue
            self.nsteps += 1
            if self.nsteps == self.step_cap // 2:
                self.half_mark = (self.world.now, self.world.opcount)
            if self.nsteps > self.step_cap:
                e = StepCap()
                # no virtual time passed and no network operation was issued during the
                # second half of the steps: the callers spin (livelock), they do not work
                e.spinning = no_progress(getattr(self, "half_mark", None), self.world)
                e.blocked = self.blocked() if e.spinning else []
                raise e
            if _is_spinner(h):
                self.spins += 1
            if inj is not None and inj["timing"] == "late":
                t = getattr(h._callback, "__self__", None)
                if (
                    isinstance(t, SimTask)
                    and t.get_name() == inj["caller"]
                    and t._sim_steps == inj["step"]
                    and not t.done()
                ):
                    self._deliver(t, inj)
                    inj = None
            h._run()
        h = None

    def blocked(self):
        out = []
        for name, t in sorted(self.caller_tasks.items()):
            if not t.done():
                out.append((name, hc_site(coro_frames(t))))
        return out


class _ShieldTracker:
    """Track AsyncShieldCancellation depth per task from outside (no /repo hook)."""

    installed = False

    @classmethod
    def install(cls):
        if cls.installed:
            return
        from . import sut

        S = sut.synchronization.AsyncShieldCancellation
        oe, ox = S.__enter__, S.__exit__

        def _cur():
            try:
                return asyncio.current_task()
            except RuntimeError:   # not under asyncio (trio executor)
                return None

        def enter(self):
            t = _cur()
            lp = t._loop if t is not None else None
            if isinstance(lp, SimLoop):
                n = t.get_name()
                lp.shield[n] = lp.shield.get(n, 0) + 1
            return oe(self)

        def exit_(self, *a):
            t = _cur()
            lp = t._loop if t is not None else None
            if isinstance(lp, SimLoop):
                n = t.get_name()
                lp.shield[n] = lp.shield.get(n, 0) - 1
            return ox(self, *a)

        S.__enter__ = enter
        S.__exit__ = exit_
        cls.installed = True


async def sleep_until(loop, t):
    fut = loop.create_future()
    h = loop.call_at(t, loop.wake, fut)
    try:
        await fut
    finally:
        h.cancel()


async def adrive(world, wire, gen):
    """Run a wire-operation generator on the async executor of this run."""
    ex = world.executor
    if not isinstance(ex, SimLoop):
        return await ex.drive(wire, gen)
    loop = ex
    try:
        until = next(gen)
        while True:
            fut = loop.create_future()
            h = loop.call_at(until, loop.wake, fut) if until is not None else None
            if wire is not None:
                wire.waiters.append(fut)
            try:
                await fut
            finally:
                if h is not None:
                    h.cancel()
                if wire is not None:
                    try:
                        wire.waiters.remove(fut)
                    except ValueError:
                        pass
            until = gen.send(None)
    except StopIteration as e:
        return e.value
    finally:
        gen.close()


def run(world, main, sched="fifo", step_cap=200000):
    """Run coroutine function main(loop) to completion on a fresh SimLoop.
    Returns (result, error) where error is None | Deadlock | StepCap instance."""
    import gc

    _ShieldTracker.install()
    loop = SimLoop(world, sched=sched, step_cap=step_cap)
    world.executor = loop
    world.ctx_name = loop.ctx_name
    world.ctx_site = loop.ctx_site
    asyncio.set_event_loop(None)
    err = None
    res = None
    gc_was = gc.isenabled()
    gc.disable()
    try:
        try:
            res = loop.run_until_complete(main(loop))
        except (Deadlock, StepCap) as e:
            err = e
        # teardown: faults off, cancel everything, drive to completion
        world.log("TEARDOWN", len(getattr(world, "trace_events", ())))
        world.faults_by_op = {}
        if world.net is not None:
            world.net.fault_rates = {}
        loop.inject = None
        loop.on_quiescent = None
        world.on_change = None
        loop.step_cap = loop.nsteps + 100000
        for _ in range(50):
            # (all_tasks() is a set: its order follows object addresses)
            pend = sorted((t for t in tasks.all_tasks(loop) if not t.done()),
                          key=lambda t: t.get_name())
            if not pend:
                break
            for t in pend:
                t.cancel()
            try:
                loop.run_until_complete(_drain(pend))
            except (Deadlock, StepCap):
                pass
        try:
            loop.run_until_complete(loop.shutdown_asyncgens())
        except (Deadlock, StepCap):
            pass
    finally:
        try:
            loop.close()
        finally:
            if gc_was:
                gc.enable()
            gc.collect()
    return res, err


async def _drain(pend):
    for t in pend:
        try:
            await asyncio.wait([t], timeout=1000.0)
        except BaseException:
            pass
