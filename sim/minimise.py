"""Scenario-level delta debugging: shrink while the same violation signature persists."""
from __future__ import annotations

import copy
import time


def _drop_callers(scn):
    cs = scn.get("callers", [])
    if len(cs) > 1:
        for i in range(len(cs)):
            if scn.get("cancel") and scn["cancel"].get("caller") == f"c{i}":
                continue
            c = copy.deepcopy(scn)
            del c["callers"][i]
            # callers are addressed by position: renumber the cancel target
            if c.get("cancel"):
                k = int(c["cancel"]["caller"][1:])
                if k > i:
                    c["cancel"]["caller"] = f"c{k - 1}"
            yield c


def _drop_ops(scn):
    for i, caller in enumerate(scn.get("callers", [])):
        ops = caller.get("ops", [])
        if len(ops) > 1:
            for j in range(len(ops)):
                c = copy.deepcopy(scn)
                del c["callers"][i]["ops"][j]
                yield c


def _drop_faults(scn):
    fs = scn.get("faults", [])
    for i in range(len(fs)):
        c = copy.deepcopy(scn)
        del c["faults"][i]
        yield c
    if scn.get("net", {}).get("fault_rates"):
        c = copy.deepcopy(scn)
        c["net"]["fault_rates"] = {}
        yield c


def _simplify_net(scn):
    net = scn.get("net", {})
    for key, val in (("latency", "zero"), ("latency", "fixed"), ("seg", "whole"),
                     ("close_latency", 0.0)):
        if net.get(key) not in (None, val):
            c = copy.deepcopy(scn)
            c["net"][key] = val
            yield c
    if scn.get("sched") == "shuffle":
        c = copy.deepcopy(scn)
        c["sched"] = "fifo"
        yield c
    pol = scn.get("policy")
    if pol and pol.get("mode") == "lines":
        c = copy.deepcopy(scn)
        c["policy"] = {"mode": "ops", "op_p": pol.get("op_p", 0.5)}
        yield c
    if scn.get("tick"):
        c = copy.deepcopy(scn)
        c["tick"] = 0.0
        yield c
    for step in list(scn.get("epilogue", [])):
        if step in ("settle", "gc", "probe"):
            c = copy.deepcopy(scn)
            c["epilogue"].remove(step)
            yield c


def _simplify_ops(scn):
    for i, caller in enumerate(scn.get("callers", [])):
        if caller.get("start"):
            c = copy.deepcopy(scn)
            c["callers"][i]["start"] = 0
            yield c
        for j, op in enumerate(caller.get("ops", [])):
            if op.get("op") != "request":
                continue
            if op.get("body") is not None:
                c = copy.deepcopy(scn)
                c["callers"][i]["ops"][j]["body"] = None
                yield c
                if op["body"].get("chunks"):
                    c = copy.deepcopy(scn)
                    c["callers"][i]["ops"][j]["body"] = {"len": op["body"]["len"]}
                    yield c
            if op.get("consume", "all") != "all":
                c = copy.deepcopy(scn)
                c["callers"][i]["ops"][j]["consume"] = "all"
                yield c
            if op.get("timeouts"):
                c = copy.deepcopy(scn)
                c["callers"][i]["ops"][j]["timeouts"] = None
                yield c
            if op.get("headers"):
                c = copy.deepcopy(scn)
                c["callers"][i]["ops"][j]["headers"] = []
                yield c
            plan = op.get("resp")
            if plan:
                for k in ("interim", "think", "cutmode", "trailers", "h2_frame", "gap",
                          "conn_close", "http10", "chunk_style"):
                    if plan.get(k):
                        c = copy.deepcopy(scn)
                        c["callers"][i]["ops"][j]["resp"].pop(k)
                        if k == "conn_close":
                            p = c["callers"][i]["ops"][j]["resp"]
                            p["headers"] = [h for h in p["headers"]
                                            if bytes(h[0]).lower() != b"connection"]
                            p["header_lines"] = [ln for ln in p["header_lines"]
                                                 if not bytes(ln).lower().startswith(b"connection")]
                        yield c


DEFAULT_SHRINKERS = [_drop_callers, _drop_ops, _drop_faults, _simplify_net, _simplify_ops]


def minimise(fam, scn, sig, budget=200, deadline=None):
    """-> (minimised scenario, digest of its event log)."""
    best = scn
    sigs, digest = _sigs(fam, best)
    if sig not in sigs:
        # not reproducible in this process: report as is
        return scn, digest
    used = 1
    progress = True
    while progress and used < budget:
        progress = False
        for sh in fam.shrinkers():
            again = True
            while again and used < budget:
                again = False
                for cand in sh(best):
                    if used >= budget or (deadline and time.time() > deadline):
                        return best, digest
                    used += 1
                    try:
                        s2, d2 = _sigs(fam, cand)
                    except Exception:  # noqa: BLE001
                        continue
                    if sig in s2:
                        best, digest = cand, d2
                        progress = again = True
                        break
    return best, digest


def _sigs(fam, scn):
    viols, digest = fam.violations_of(scn)
    return [s for s, _ in viols], digest
