"""Deterministic simulation with fault injection for encode/httpcore.

See /verif/DESIGN.md.  Everything under this package is harness code; the system
under test is imported from $VERIF_REPO (default /repo) by sim.sut.
"""
