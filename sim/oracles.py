"""Oracles: pure functions of the run (ledger, outcomes) plus the in-run observers
(invariants evaluated while the run proceeds).  A violation is
world.violate(property, signature, detail); signatures are root-cause coordinates
(no seeds, no line numbers)."""
from __future__ import annotations

from . import sut
from .peers.h1 import body_for

httpcore = sut.httpcore

H2_DROP = (b"connection", b"transfer-encoding", b"keep-alive", b"upgrade",
           b"proxy-connection")


def is_h2(out):
    return out.get("ext", {}).get("http_version") == b"HTTP/2"


def expected_headers(plan, h2):
    hs = [(bytes(k), bytes(v)) for k, v in plan["headers"]]
    if h2:
        return [(k.lower(), v) for k, v in hs if k.lower() not in H2_DROP]
    return hs


def expected_body(plan, token, method=b"GET"):
    if plan.get("framing") == "none":
        return b""
    return body_for(token, plan.get("body_len", 0))


def faults_fired(world):
    return sum(v for k, v in world.stats.items()
               if k.startswith(("fault:", "cancel:", "hostile:")) or k == "torn_write")


# ---------------------------------------------------------------------------
# C01 / C02 / C12: token oracle


def token_oracle(res, prop="C01", strict_headers=True):
    w = res.world
    for key, out in sorted(res.outcomes.items()):
        if "status" not in out:
            continue
        tok = out["token"]
        plan = w.plans.get(tok)
        if plan is None:
            continue
        call = w.calls.get(tok, {})
        method = call.get("op", {}).get("method", "GET")
        h2 = is_h2(out)
        where = None
        if out["status"] != plan["status"]:
            where = "status"
        elif strict_headers and list(out["headers"]) != expected_headers(plan, h2):
            where = "headers"
        else:
            exp = b"" if method == "HEAD" else expected_body(plan, tok)
            got = out.get("body", b"")
            if "net_reads" in out:
                pass
            elif out.get("complete") and "exc" not in out:
                trunc_ok = plan.get("framing") == "close" and w.stats_faulty
                if got != exp and not (trunc_ok and exp.startswith(got)):
                    where = "body"
            elif not exp.startswith(got):
                where = "body-prefix"
        if where == "status" and out["status"] == 408 and _idle_408_race(w, tok, out):
            # the server's unsolicited idle time-out notice (408) crossed a request that
            # was already on its way: the premise 'one response per request' does not hold
            # for this exchange, and nothing told the client when it looked at the socket
            w.probes["idle_408_crossed_request"] += 1
            continue
        if where is not None:
            echoed = dict((k.lower(), v) for k, v in out.get("headers", []))
            other = echoed.get(b"x-echo-token")
            kind = "foreign-response" if other not in (None, tok) else "altered-response"
            w.violate(prop, f"{kind}:{where}:{'h2' if h2 else 'h1'}",
                      {"token": tok, "got_status": out["status"],
                       "got_headers": out.get("headers"), "echo": other,
                       "body_len": len(out.get("body", b"")),
                       "exp_len": len(expected_body(plan, tok))})


def _idle_408_race(w, tok, out):
    """True iff the 408 this request received is the server's idle time-out notice and the
    client polled the idle socket for this very reuse - finding nothing - before the
    notice existed."""
    if any(k.lower() == b"x-echo-token" for k, v in out.get("headers", [])):
        return False
    led = w.ledger
    sends = [e for e in led.of("c2s") if e[6] == tok]
    if not sends:
        return False
    wid, seq_send = sends[0][3], sends[0][0]
    closes = [e for e in led.of("srv_idle_close") if e[3] == wid]
    if not closes:
        return False
    t_nom = closes[0][4]
    prev = max([e[0] for e in led.of("c2s") if e[3] == wid and e[0] < seq_send and e[6] != tok],
               default=-1)
    return any(e[3] == wid and e[4] is False and prev < e[0] < seq_send and e[1] < t_nom
               for e in led.of("poll"))


def exchange_order_oracle(res, prop="C01"):
    """HTTP/1.1 wires: request i+1 may start only after response i was completely
    delivered, and never after a closing / truncated response."""
    w = res.world
    for e in w.ledger.of("srv_next_req_start"):
        _, t, _, wid, nreq, nread, end_off, closing = e
        if end_off is None:
            w.violate(prop, "reuse-before-response", {"wire": wid, "nreq": nreq})
        elif closing:
            w.violate(prop, "reuse-after-closing-response", {"wire": wid, "nreq": nreq})
        elif nread < end_off:
            w.violate(prop, "reuse-before-response-delivered",
                      {"wire": wid, "nreq": nreq, "delivered": nread, "end": end_off})
    # a wire whose server side saw a malformed request head got a desynchronised stream
    for e in w.ledger.of("srv_bad"):
        if not w.stats_faulty:
            w.violate(prop, "server-saw-malformed-request", {"wire": e[3], "why": e[5]})


def decoded_request_oracle(res, prop="C01"):
    """What each server decoded must be the request its caller made: method, a target
    naming the caller's token, exactly one of each pseudo-header first (HTTP/2), and the
    caller's own header fields with their values, in order, with nothing foreign added.
    (An HPACK table that has lost a header block, or bytes of two requests interleaved on
    one HTTP/1.1 connection, make the server answer a request nobody made.)"""
    w = res.world
    led = w.ledger
    px = (w.scn.get("pool") or {}).get("proxy") or {}
    allowed = {b"host", b"content-length", b"transfer-encoding", b"proxy-authorization",
               b"accept", b"connection"}
    allowed |= {str(k).lower().encode() for k, v in px.get("headers", [])}

    def check(proto, tok, method, target, headers, pseudo):
        call = w.calls.get(tok)
        if call is None:
            return None
        op = call["op"]
        if op.get("target") is not None or op.get("illegal"):
            return None
        if method != op.get("method", "GET").encode():
            return "method"
        if (b"/t/" + tok) not in target:
            return "target"
        if proto == "h2":
            names = [k for k, v in pseudo]
            if sorted(names) != [b":authority", b":method", b":path", b":scheme"]:
                return "pseudo-headers"
        sent = [(bytes(k).lower(), bytes(v)) for k, v in call["headers"]]
        got = [(bytes(k).lower(), bytes(v)) for k, v in headers]
        if proto == "h2":
            sent = [h for h in sent if h[0] not in (b"host", b"transfer-encoding", b"connection")]
        i = 0
        for h in got:
            if i < len(sent) and h == sent[i]:
                i += 1
            elif h[0] not in allowed:
                return "foreign-header"
        if i < len(sent):
            return "caller-header-missing-or-altered"
        return None

    for e in led.of("h2_req"):
        tok = e[6]
        if tok is None:
            continue
        hs = list(e[7])
        k = 0
        while k < len(hs) and hs[k][0].startswith(b":"):
            k += 1
        pseudo, rest = hs[:k], hs[k:]
        if any(n.startswith(b":") for n, v in rest):
            why = "pseudo-headers"
        else:
            d = dict(pseudo)
            why = check("h2", tok, d.get(b":method", b""), d.get(b":path", b""), rest, pseudo)
        if why:
            w.violate(prop, "server-decoded-a-different-request:h2:" + why,
                      {"token": tok, "decoded": hs})
            return
    for e in led.of("srv_req"):
        tok = e[6]
        if tok is None:
            continue
        why = check("h1", tok, e[7], e[8], list(e[9]), ())
        if why:
            w.violate(prop, "server-decoded-a-different-request:h1:" + why,
                      {"token": tok, "decoded": (e[7], e[8], e[9])})
            return


# ---------------------------------------------------------------------------
# ownership walk (C04 / C06)


def reachable_wires(pool_connections):
    """Generic object-graph walk from the pooled connections to sim stream objects."""
    seen = set()
    out = set()
    stack = list(pool_connections)
    n = 0
    while stack and n < 5000:
        o = stack.pop()
        i = id(o)
        if i in seen:
            continue
        seen.add(i)
        n += 1
        wire = getattr(o, "wire", None)
        if wire is not None and hasattr(wire, "inq"):
            out.add(wire.id)
            continue
        d = getattr(o, "__dict__", None)
        if d is None:
            continue
        mod = type(o).__module__ or ""
        if not mod.startswith("httpcore"):
            # only the SUT's own objects are followed (the sim backend object would
            # lead to the world and thereby to every wire)
            continue
        for v in d.values():
            if isinstance(v, (list, tuple, set)):
                stack.extend(x for x in v if hasattr(x, "__dict__"))
            elif isinstance(v, dict):
                stack.extend(x for x in v.values() if hasattr(x, "__dict__"))
            elif hasattr(v, "__dict__") and not isinstance(v, type):
                stack.append(v)
    return out


class LimitObserver:
    """C04: continuous invariant on pool.connections and the socket ledger."""

    prop = "C04"

    def setup(self, world, pool):
        self.w = world
        self.pool = pool
        n = world.scn.get("pool", {}).get("max_connections", 10)
        self.n = n
        self.ever_owned = set()
        self.flagged = set()
        self.max_conns = 0
        self.max_open = 0

    def on_change(self):
        n = self.n
        if n is None:
            return
        w = self.w
        conns = self.pool.connections
        if len(conns) > self.max_conns:
            self.max_conns = len(conns)
        if len(conns) > n and "conns" not in self.flagged:
            self.flagged.add("conns")
            w.violate(self.prop, "pool-holds-more-than-max",
                      {"n": n, "held": len(conns), "info": [c.info() for c in conns]})
        opens = [x for x in w.wires if x.state == "open"]
        unseen = [x for x in opens if x.id not in self.ever_owned]
        if unseen:
            self.ever_owned |= reachable_wires(conns)
            unseen = [x for x in opens if x.id not in self.ever_owned]
        if len(opens) > n:
            owned_now = reachable_wires(conns)
            self.ever_owned |= owned_now
            counted = [x.id for x in opens
                       if x.id in owned_now or x.id not in self.ever_owned]
            if len(counted) > self.max_open:
                self.max_open = len(counted)
            if len(counted) > n and "open" not in self.flagged:
                self.flagged.add("open")
                w.violate(self.prop, "more-open-streams-than-max",
                          {"n": n, "open": counted,
                           "unattached": [x.id for x in opens if x.id not in self.ever_owned],
                           "info": [c.info() for c in conns]})
        elif len(opens) > self.max_open:
            self.max_open = len(opens)

    def on_quiescent(self):
        """At a quiescent point nobody is part-way through closing evicted connections
        (unless a close is visibly in progress): every open stream counts, also those of
        connections the pool has dropped without closing them."""
        n = self.n
        if n is None or "open" in self.flagged:
            return
        w = self.w
        if any(x.state == "closing" for x in w.wires):
            return
        opens = [x.id for x in w.wires if x.state == "open"]
        if len(opens) > n:
            owned = reachable_wires(self.pool.connections)
            self.flagged.add("open")
            w.violate(self.prop, "more-open-streams-than-max:dropped-but-not-closed",
                      {"n": n, "open": opens, "not_pooled": [i for i in opens if i not in owned],
                       "info": [c.info() for c in self.pool.connections]})

    def post(self, res):
        res.info["max_conns"] = self.max_conns
        res.info["max_open"] = self.max_open
        if self.n is not None and self.max_conns >= self.n:
            self.w.probes["at_connection_limit"] += 1


# ---------------------------------------------------------------------------
# C07: deadlock + serviceable waiter


def pool_queue(pool):
    reqs = getattr(pool, "_requests", None)
    if reqs is None:
        return None
    out = []
    for r in list(reqs):
        q = getattr(r, "is_queued", None)
        if q is not None and q():
            out.append(r)
    return out


class WaiterObserver:
    """C07: at quiescent points no queued request may be serviceable."""

    prop = "C07"

    def setup(self, world, pool):
        self.w = world
        self.pool = pool
        self.n = world.scn.get("pool", {}).get("max_connections", 10)
        self.flagged = False
        self.checked = 0

    def on_quiescent(self):
        if self.flagged:
            return
        q = pool_queue(self.pool)
        if not q:
            return
        self.checked += 1
        self.w.probes["quiescent_with_queue"] += 1
        if any(x.state == "closing" for x in self.w.wires):
            # a close is in progress: the task running it re-examines the queue when
            # it finishes (the connection being closed still counts until then)
            self.w.probes["quiescent_during_close"] += 1
            return
        conns = self.pool.connections
        n = self.n
        # a connection some request has been handed is about to be used: neither
        # evictable nor (HTTP/1.1) available to anybody else
        assigned = {id(getattr(r, "connection", None))
                    for r in list(getattr(self.pool, "_requests", []))
                    if getattr(r, "connection", None) is not None}
        for r in q:
            origin = r.request.url.origin
            why = None
            if n is None or len(conns) < n:
                why = "room-for-new-connection"
            elif any(c.is_idle() and id(c) not in assigned for c in conns):
                why = "idle-connection-evictable"
            elif any(c.can_handle_request(origin) and c.is_available() for c in conns):
                c = next(c for c in conns if c.can_handle_request(origin) and c.is_available())
                why = "available-connection-for-origin:" + type(c).__name__.replace("Async", "")
            elif any(c.is_closed() for c in conns):
                why = "closed-connection-in-pool"
            if why is not None:
                self.flagged = True
                self.w.violate(self.prop, "serviceable-waiter:" + why,
                               {"origin": str(origin), "info": [c.info() for c in conns],
                                "t": self.w.now})
                return


def goaway_consumed(wire):
    """Has the client read the GOAWAY frame the HTTP/2 peer of this wire has sent?"""
    p = getattr(wire, "peer", None)
    for _ in range(5):
        if p is None:
            return False
        if getattr(p, "goaway_sent", False):
            off = getattr(p, "goaway_offset", None)
            return off is not None and wire.nread >= off
        p = getattr(p, "inner", None)
    return False


class TerminatedAssignObserver:
    """C07: 'a request waits only while no pooled connection can take it': a request
    handed a connection on which the client has already read a GOAWAY - which will never
    open another stream - and found still parked on it at a quiescent point, while the
    pool could have served it otherwise, is waiting for nothing.  Requests assigned
    *before* the GOAWAY was read are not judged (httpcore keeps them where they are)."""

    prop = "C07"

    def setup(self, world, pool):
        self.w = world
        self.pool = pool
        self.suspects = []
        self.flagged = False
        world.on_assign = self.on_assign

    def on_assign(self, preq, conn):
        if conn is None or self.flagged:
            return
        w = self.w
        for wid in sorted(reachable_wires([conn])):
            wire = w.wires[wid]
            if wire.state == "open" and goaway_consumed(wire):
                self.suspects.append((preq, conn, wid, w.now))
                w.probes["assigned_after_goaway"] += 1

    def on_quiescent(self):
        if self.flagged or not self.suspects:
            return
        reqs = list(getattr(self.pool, "_requests", None) or ())
        for preq, conn, wid, t in self.suspects:
            if any(r is preq for r in reqs) and getattr(preq, "connection", None) is conn \
                    and self.w.wires[wid].state == "open":
                self.flagged = True
                self.w.violate(self.prop, "request-parked-on-terminated-connection",
                               {"wire": wid, "assigned_at": t, "t": self.w.now,
                                "info": [c.info() for c in self.pool.connections]})
                return


def deadlock_oracle(res, prop="C07"):
    if res.error == "deadlock":
        sites = tuple(sorted({str(b[1]) for b in (res.blocked or [])}))
        res.world.violate(prop, "deadlock:" + "|".join(s.split(":")[-1] if ":" in s else s
                                                         for s in sites),
                          {"blocked": res.blocked})


def termination_oracle(res, prop="C07"):
    """Every caller terminates with a value, a documented exception, or was cancelled."""
    w = res.world
    if res.error:
        return
    for key, out in sorted(res.outcomes.items()):
        if out.get("phase") not in ("done", "failed", "cancelled"):
            w.violate(prop, "caller-not-terminated:" + str(out.get("phase")),
                      {"key": key, "out": {k: v for k, v in out.items() if k != "body"}})


def outcome_oracle(res, prop, allow=()):
    """No fault injected + well-behaved peers => every request succeeds."""
    w = res.world
    if w.stats_faulty:
        return
    for key, out in sorted(res.outcomes.items()):
        if "exc" in out and out["exc"] not in allow:
            w.violate(prop, f"unprovoked-failure:{out['exc']}",
                      {"key": key, "msg": out.get("msg"), "phase": out.get("failed_phase")})


# ---------------------------------------------------------------------------
# C06 socket ledger


def open_wires(world):
    return [x for x in world.wires if x.state != "closed"]


def leak_oracle(res, prop="C06"):
    """After the pool has been closed with no responses outstanding, no stream it
    opened remains open."""
    w = res.world
    if res.error:
        return
    if not w.ledger.of("pool_closed"):
        return
    for x in open_wires(w):
        w.violate(prop, "stream-open-after-pool-close",
                  {"wire": x.id, "endpoint": x.endpoint, "state": x.state,
                   "opened_by": x.opened_by, "tls": len(x.tls)})
        return


def stats_faulty(world):
    return faults_fired(world) > 0 or bool(world.scn.get("hostile"))
