"""Run a scenario on the thread executor (sync httpcore classes)."""
from __future__ import annotations

from . import sut, tsched
from .core import Deadlock, HarnessError, StepCap
from .scenario import (Result, SyncApi, build_pool, build_world, caller_script, finish,
                       probe_requests, run_sync)


def run_threads(scn, observers=()):
    world = build_world(scn)
    sut.set_world(world)
    res = Result()
    sched = tsched.Sched(world, scn.get("policy"), step_cap=scn.get("step_cap", 400000))
    world.executor = sched
    world.ctx_name = sched.ctx_name
    world.ctx_site = sched.ctx_site
    tsched.set_sched(sched)
    real_threading = sut.synchronization.threading
    sut.synchronization.threading = tsched.ThreadingShim
    if scn.get("linecov"):
        sched.linecov = set()
    try:
        if sched.linecov is not None:
            # the pool is constructed on the host thread: trace that too (C18 lock-step)
            import sys as _sys

            def _tr(frame, event, arg, cov=sched.linecov):
                fn = frame.f_code.co_filename
                if "/httpcore/_sync/" in fn:
                    def _loc(frame, event, arg):
                        if event == "line":
                            cov.add((frame.f_code.co_filename, frame.f_lineno))
                        return _loc
                    return _loc
                return None
            _sys.settrace(_tr)
            try:
                pool = build_pool(scn, world, sync=True)
            finally:
                _sys.settrace(None)
        else:
            pool = build_pool(scn, world, sync=True)
        world.pool = pool
        api = SyncApi(world, pool)
        world.api = api
        for ob in observers:
            if hasattr(ob, "setup"):
                ob.setup(world, pool)
        chg = [ob.on_change for ob in observers if hasattr(ob, "on_change")]
        if chg:
            def on_change():
                world.observing = True
                try:
                    for f in chg:
                        f()
                finally:
                    world.observing = False
            world.on_change = on_change
        qs = [ob.on_quiescent for ob in observers if hasattr(ob, "on_quiescent")]
        if qs:
            def on_q():
                world.observing = True
                try:
                    for f in qs:
                        f()
                finally:
                    world.observing = False
            sched.on_quiescent = on_q
        names = []
        for i, c in enumerate(scn.get("callers", ())):
            name = f"c{i}"
            names.append(name)
            sched.spawn(lambda name=name, c=c: run_sync(caller_script(api, world, name, c)),
                        name)

        def main():
            sched.join_all(set(names))
            world.log("callers_done")
            world.faults_by_op = {}
            world.net.fault_rates = {}
            for step in scn.get("epilogue", ()):
                if step == "settle":
                    sched.sleep(1.0)
                elif step == "gc":
                    pass
                elif step == "observe":
                    for ob in observers:
                        if hasattr(ob, "observe"):
                            sched.in_hook = True
                            world.observing = True
                            try:
                                ob.observe("epilogue")
                            finally:
                                world.observing = False
                                sched.in_hook = False
                elif step == "probe":
                    n = scn.get("pool", {}).get("max_connections", 10) or 3
                    world.probe_result = run_sync(probe_requests(api, world, scn, min(n, 4)))
                elif step == "close_pool":
                    pool.close()
                    world.log("pool_closed", "main")
                else:
                    raise HarnessError(f"unknown epilogue step {step}")

        sched.spawn(main, "main")
        if scn.get("seam") == "L2":
            from .l2 import Installed

            with Installed(world, sync=True):
                err = sched.run()
        else:
            err = sched.run()
    finally:
        sut.synchronization.threading = real_threading
        tsched.set_sched(None)
    if isinstance(err, Deadlock):
        res.error = "deadlock"
        res.blocked = err.blocked
        world.log("DEADLOCK", tuple((n, repr(b)) for n, b in err.blocked))
    elif isinstance(err, StepCap):
        if getattr(err, "spinning", None):
            res.error = "deadlock"
            res.blocked = err.spinning
            world.log("LIVELOCK", tuple((n, repr(b)) for n, b in res.blocked))
        else:
            res.error = "stepcap"
    for t in sched.threads:
        if t.exc is not None:
            # an exception escaping a caller script (not a request outcome) is a
            # harness error unless it is the SUT's (recorded by do_request already)
            res.info.setdefault("thread_exc", []).append((t.name, repr(t.exc)))
    res.info["steps"] = sched.nsteps
    res.info["switches"] = sched.nsw
    res.info["lines"] = sched.nlines
    res.info["opcount"] = world.opcount
    res.info["linecov"] = sched.linecov
    res.info["line_record"] = getattr(sched, "record", None)
    finish(res, world)
    for ob in observers:
        if hasattr(ob, "post"):
            ob.post(res)
    res.violations = list(world.violations)
    sut.set_world(None)
    return res
