"""Setup smoke test: the seams exist, one seed is one execution (same digest twice),
on both executors."""
from __future__ import annotations

import sys


def main():
    from . import props, sut  # noqa: F401  (sut asserts the seams)
    from .core import sub_seed

    ok = True
    for prop, famname in (("C01", "poolmix-async-faulty"), ("C01", "poolmix-threads")):
        fam = props.family_by_name(prop, famname)
        for i in range(6):
            seed = sub_seed(0, prop, famname, i)
            scn = fam.generate(seed, i, "quick")
            a = fam.run_scenario(scn).digest
            b = fam.run_scenario(scn).digest
            if a != b:
                print(f"selftest: {famname} unit {i}: digests differ", file=sys.stderr)
                ok = False
    print("selftest:", "ok" if ok else "FAILED")
    return 0 if ok else 2
